"""Variant corpus for selftest.py: (id, props, edits[(path, old, new)], expect, rule)."""

CORPUS = []


def fire(id, props, path, old, new, rule=None, **kw):
    CORPUS.append(dict(id=id, props=props if isinstance(props, list) else [props],
                       edits=[(path, old, new)], expect="fire", rule=rule, **kw))


def silent(id, props, path, old, new, **kw):
    CORPUS.append(dict(id=id, props=props if isinstance(props, list) else [props],
                       edits=[(path, old, new)], expect="silent", **kw))


B = "flowjax/bijections/"

# ------------------------------------------------------------------------------ C01
fire("c01-chain-forward-order-inverse", "C01", B + "chain.py",
     "        for bijection in reversed(self.bijections):\n            y = bijection.inverse(y, condition)",
     "        for bijection in self.bijections:\n            y = bijection.inverse(y, condition)", "C01.mirror")
fire("c01-invert-identity", "C01", B + "utils.py",
     "        return self.bijection.inverse(x, condition)", "        return self.bijection.transform(x, condition)")
fire("c01-scan-inverse-not-reversed", "C01", B + "jax_transforms.py",
     "        x, _ = _filter_scan(step, y, self.bijection, reverse=True)",
     "        x, _ = _filter_scan(step, y, self.bijection)", "C01.mirror")
fire("c01-affine-IL-value", "C01", B + "affine.py",
     "        return (y - self.loc) / self.scale, -jnp.log(jnp.abs(self.scale)).sum()",
     "        return (y + self.loc) / self.scale, -jnp.log(jnp.abs(self.scale)).sum()", "C01.value")
fire("c01-stack-inverse-axis", "C01", B + "concatenate.py",
     "        return jnp.stack(x_parts, self.axis)\n\n    def inverse_and_log_det",
     "        return jnp.stack(x_parts, 0)\n\n    def inverse_and_log_det", "C01.mirror")
fire("c01-partial-write-other-index", "C01", B + "utils.py",
     "        x = self.bijection.inverse(y[self.idxs], condition)\n        return y.at[self.idxs].set(x)",
     "        x = self.bijection.inverse(y[self.idxs], condition)\n        return y.at[...].set(x)", "C01.mirror")
fire("c01-maf-passes", "C01", B + "masked_autoregressive.py",
     "length=len(y))", "length=len(y) - 1)", "C01.iter")
fire("c01-maf-logdet-at-y", ["C01", "C02"], B + "masked_autoregressive.py",
     "        log_det = self.transform_and_log_det(x, condition)[1]",
     "        log_det = self.transform_and_log_det(y, condition)[1]")
fire("c01-spline-unclamped", ["C01", "C18"], B + "rational_quadratic_spline.py",
     "        k = jnp.maximum(jnp.searchsorted(y_pos, y_robust) - 1, 0)",
     "        k = jnp.searchsorted(y_pos, y_robust) - 1")
fire("c01-coupling-inverse-uses-forward", "C01", B + "coupling.py",
     "        x_trans = transformer.inverse(y_trans)", "        x_trans = transformer.transform(y_trans)", "C01.mirror")
fire("c01-embed-condition-dropped", "C01", B + "utils.py",
     "        condition = self.embedding_net(condition)\n        return self.bijection.inverse(y, condition)",
     "        return self.bijection.inverse(y, condition)", "C01.mirror")
fire("c01-inverter-wrong-sign", "C01", "flowjax/bisection_search.py",
     "            return bijection.transform(x, condition) - y", "            return bijection.transform(x, condition) + y", "C01.iter")
silent("c01-benign-rename-and-sum", ["C01", "C02"], B + "affine.py",
       "        return x * self.scale + self.loc, jnp.log(jnp.abs(self.scale)).sum()",
       "        out = self.loc + self.scale * x\n        return out, jnp.sum(jnp.log(jnp.abs(self.scale)))")
silent("c01-benign-chain-helper", ["C01", "C02", "C08"], B + "chain.py",
       "        for bijection in reversed(self.bijections):\n            y = bijection.inverse(y, condition)\n        return y",
       "        order = reversed(self.bijections)\n        for b in order:\n            y = b.inverse(y, condition)\n        return y")
silent("c01-benign-concat-kw", ["C01", "C02", "C08"], B + "concatenate.py",
       "        return jnp.concatenate(y_parts, self.axis), sum(log_dets)",
       "        return jnp.concatenate(y_parts, axis=self.axis), sum(log_dets)")

# ------------------------------------------------------------------------------ C02
fire("c02-affine-missing-sum", "C02", B + "affine.py",
     "        return x * self.scale + self.loc, jnp.log(jnp.abs(self.scale)).sum()",
     "        return x * self.scale + self.loc, jnp.log(jnp.abs(self.scale))", "C02.scalar")
fire("c02-vmap-sum-axis", "C02", B + "jax_transforms.py",
     "        return y, jnp.sum(log_det)", "        return y, jnp.sum(log_det, axis=0)" , "C02.scalar")
fire("c02-scale-IL-sign", "C02", B + "affine.py",
     "        return y / self.scale, -jnp.log(jnp.abs(self.scale)).sum()",
     "        return y / self.scale, jnp.log(jnp.abs(self.scale)).sum()", "C02.neg")
fire("c02-chain-IL-subtracts", "C02", B + "chain.py",
     "            y, log_abs_det_jac_i = bijection.inverse_and_log_det(y, condition)\n            log_abs_det_jac += log_abs_det_jac_i.sum()",
     "            y, log_abs_det_jac_i = bijection.inverse_and_log_det(y, condition)\n            log_abs_det_jac -= log_abs_det_jac_i.sum()", "C02.neg")
fire("c02-spline-IL-derivative-at-y", "C02", B + "rational_quadratic_spline.py",
     "        x = self.inverse(y)\n        derivative = self.derivative(x)",
     "        x = self.inverse(y)\n        derivative = self.derivative(y)", "C02.neg")
fire("c02-planar-raw-u", "C02", B + "planar.py",
     "        us = self.get_act_scale() * relu_slope", "        us = self._act_scale * relu_slope", "C02.neg")
fire("c02-bnaf-logdet-at-y", "C02", B + "block_autoregressive_network.py",
     "        _, forward_log_det = self.transform_and_log_det(x, condition)\n        return x, -forward_log_det",
     "        _, forward_log_det = self.transform_and_log_det(y, condition)\n        return x, -forward_log_det", "C02.neg")
