"""Symbolic differentiation of elementwise term expressions and log|.| normalisation, used to
check closed-form log-determinants of elementwise bijections against the derivative of the map they
actually compute (C02.deriv).  Purely algebraic: no evaluation."""
from __future__ import annotations

from .terms import C, is_const, key, mk_add, mk_mul, mk_neg, mk_pow, same, walk

SIGMOID = ("ext", "jax.nn.sigmoid")


def call1(q, kwname, a):
    return ("call", ("ext", q), (), ((kwname, a),))


def depends(t, x):
    return any(same(s, x) for s in walk(t))


class NotDifferentiable(Exception):
    pass


def diff(t, x):
    """d t / d x for an elementwise expression t of the (elementwise) variable x."""
    if same(t, x):
        return C(1)
    if not depends(t, x):
        return C(0)
    tag = t[0]
    if tag == "add":
        return mk_add(tuple(diff(a, x) for a in t[1]))
    if tag == "mul":
        items = t[1]
        out = []
        for i, a in enumerate(items):
            da = diff(a, x)
            if da == C(0):
                continue
            out.append(mk_mul(tuple(items[:i]) + (da,) + tuple(items[i + 1:])))
        return mk_add(tuple(out)) if out else C(0)
    if tag == "pow":
        if not depends(t[2], x) and is_const(t[2]):
            n = t[2]
            return mk_mul((n, mk_pow(t[1], mk_add((n, C(-1)))), diff(t[1], x)))
        raise NotDifferentiable(f"power with non-constant exponent")
    if tag == "call" and t[1][0] == "ext":
        q = t[1][1]
        kw = dict(t[3])
        a = kw.get("a") if "a" in kw else kw.get("x")
        if q == "jax.numpy.exp":
            return mk_mul((t, diff(a, x)))
        if q == "jax.numpy.tanh":
            return mk_mul((mk_add((C(1), mk_neg(mk_pow(t, C(2))))), diff(a, x)))
        if q == "jax.nn.softplus":
            return mk_mul((("call", SIGMOID, (), (("x", a),)), diff(a, x)))
        if q == "jax.numpy.log":
            return mk_mul((mk_pow(a, C(-1)), diff(a, x)))
        if q == "jax.numpy.where":
            m = kw["condition"]
            return ("call", t[1], (), (("condition", m), ("x", diff(kw["x"], x)), ("y", diff(kw["y"], x))))
        if q == "jax.numpy.sign":
            return C(0)  # piecewise constant
        if q == "jax.numpy.clip":
            return diff(kw["a"], x)  # inside the clipping range (the range is the image of the formula)
        if q == "jax.numpy.sqrt":
            return mk_mul((C(0.5), mk_pow(t, C(-1)), diff(a, x)))
    raise NotDifferentiable(f"primitive {t[0]} {t[1] if len(t) > 1 else ''}")


LOG, ABS = "jax.numpy.log", "jax.numpy.abs"


def log_abs(t):
    """Canonical form of log|t| using: log|ab| = log|a| + log|b|, log|a^n| = n log|a|, log|exp a| = a,
    log sigmoid(a) = -softplus(-a), log(1 - tanh(a)^2) = -2(a + softplus(-2a) - log 2), log|1| = 0,
    log|where(m,a,b)| = where(m, log|a|, log|b|)."""
    if t == C(1) or t == C(1.0):
        return C(0)
    tag = t[0]
    if tag == "mul":
        return mk_add(tuple(log_abs(a) for a in t[1]))
    if tag == "pow" and is_const(t[2]):
        return mk_mul((t[2], log_abs(t[1])))
    if tag == "call" and t[1][0] == "ext":
        q = t[1][1]
        kw = dict(t[3])
        a = kw.get("a") if "a" in kw else kw.get("x")
        if q == "jax.numpy.exp":
            return a
        if q == "jax.nn.sigmoid":
            return mk_neg(call1("jax.nn.softplus", "x", mk_neg(a)))
        if q == "jax.numpy.where":
            return ("call", t[1], (), (("condition", kw["condition"]), ("x", log_abs(kw["x"])), ("y", log_abs(kw["y"]))))
        if q == ABS:
            return log_abs(a)
    if tag == "add" and len(t[1]) == 2:
        # 1 - tanh(a)^2
        one = [z for z in t[1] if z == C(1)]
        other = [z for z in t[1] if z != C(1)]
        if one and other:
            o = other[0]
            if o[0] == "mul" and len(o[1]) == 2 and o[1][0] == C(-1) and o[1][1][0] == "pow" and o[1][1][2] == C(2):
                th = o[1][1][1]
                if th[0] == "call" and th[1] == ("ext", "jax.numpy.tanh"):
                    a = dict(th[3])["a"]
                    return mk_mul((C(-2), mk_add((a, call1("jax.nn.softplus", "x", mk_mul((C(-2), a))),
                                                  mk_neg(call1(LOG, "a", C(2.0)))))))
    if is_const(t) and isinstance(t[1], (int, float)) and t[1] > 0:
        return call1(LOG, "a", t)
    return call1(LOG, "a", call1(ABS, "a", t))


def strip_abs_of_positive(t):
    """log(abs(p)) -> log(p) is not applied automatically; callers compare both spellings."""
    return t
