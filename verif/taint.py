"""Traced-value taint analysis (C14): flow-insensitive, per function, over the AST.

A value is *traced* when it is (derived from) a data argument or an array-kind field; it
is *static* when it is structure: shapes, ranks, None-ness, types, python scalars declared
as such, loop indices of enumerate/range over containers."""
from __future__ import annotations

import ast

from .model import ClassInfo, Module, Program

STATIC_ATTRS = {"shape", "ndim", "size", "dtype", "cond_shape", "__name__", "__class__", "in_features",
                "out_features", "depth", "names", "arguments"}
STATIC_CALLS = {"len", "isinstance", "callable", "type", "hasattr", "range", "enumerate", "zip", "reversed", "getattr",
                "tuple", "list", "frozenset", "set", "dict", "str", "repr", "id", "prod", "math.prod", "inspect.signature",
                "jnp.shape", "jnp.ndim", "jnp.broadcast_shapes", "jax.numpy.shape", "partial", "functools.partial",
                "eqx.filter_vmap", "eqx.partition", "eqx.combine", "eqx.tree_flatten_one_level", "wraps", "_get_ufunc_signature"}
CONCRETISERS = {"bool", "int", "float", "complex"}
CONCRETISING_METHODS = {"item", "tolist", "__bool__", "__index__"}
HOST_MODULES = ("np.", "numpy.", "math.", "onp.")
STATIC_ANN = ("int", "bool", "str", "float", "tuple", "Literal", "Callable", "None", "slice", "Sequence[tuple",
              "list[float]", "type")
ARRAY_ANN = ("Array", "ArrayLike", "PRNGKeyArray", "AbstractUnwrappable", "Scalar", "PyTree")


def ann_is_static(src: str | None) -> bool | None:
    """True: declared python-static; False: array-kind; None: unknown/object."""
    if src is None:
        return None
    s = src.replace(" ", "")
    if any(o in s for o in ("AbstractBijection", "AbstractDistribution", "eqx.nn.", "Callable", "GradientTransformation")):
        return None  # objects / containers of objects, not arrays
    if any(a in s for a in ARRAY_ANN):
        return False
    parts = [p for p in s.replace("|", ",").split(",") if p]
    if s.startswith(STATIC_ANN) or all(p.startswith(STATIC_ANN) or p in ("...]",) for p in parts):
        return True
    return None


class FnTaint:
    def __init__(self, prog: Program, module: Module, cls: ClassInfo | None, fn, tainted_params=None):
        self.prog, self.module, self.cls, self.fn = prog, module, cls, fn
        self.tainted: set[str] = set()
        self.findings: list = []
        self.nested_static_params: set[str] = set()
        self._parents = None
        a = fn.args
        params = a.posonlyargs + a.args + a.kwonlyargs
        for i, p in enumerate(params):
            if i == 0 and cls is not None and p.arg in ("self", "cls"):
                continue
            if tainted_params is not None:
                if p.arg in tainted_params:
                    self.tainted.add(p.arg)
                continue
            st = ann_is_static(ast.unparse(p.annotation) if p.annotation is not None else None)
            if st is True:
                continue
            if p.annotation is None and self._bool_default(a, p):
                continue
            if st is None and p.annotation is not None:
                continue  # objects (bijection, callable module): not arrays
            if st is None and p.arg in ("func", "fn", "f", "method", "bijection", "autoregressive_fn", "module", "static"):
                continue
            self.tainted.add(p.arg)
        if a.vararg:
            self.tainted.add(a.vararg.arg)

    @staticmethod
    def _bool_default(a, p) -> bool:
        pos = a.posonlyargs + a.args
        if p in pos:
            i = pos.index(p) - (len(pos) - len(a.defaults))
            d = a.defaults[i] if 0 <= i < len(a.defaults) else None
        else:
            d = a.kw_defaults[a.kwonlyargs.index(p)] if p in a.kwonlyargs else None
        return isinstance(d, ast.Constant) and isinstance(d.value, bool)

    # ------------------------------------------------------------------ taint of expr
    def field_tainted(self, name: str) -> bool:
        if self.cls is None:
            return False
        r = self.prog.find_field(self.cls, name)
        if r is None:
            return False
        st = ann_is_static(r[1].ann_src)
        return st is False

    def is_tainted(self, e) -> bool:
        if e is None:
            return False
        if isinstance(e, ast.Constant):
            return False
        if isinstance(e, ast.Name):
            return e.id in self.tainted
        if isinstance(e, ast.Attribute):
            if e.attr in STATIC_ATTRS:
                return False
            if isinstance(e.value, ast.Name) and e.value.id == "self":
                return self.field_tainted(e.attr)
            return self.is_tainted(e.value)
        if isinstance(e, ast.Call):
            fsrc = ast.unparse(e.func)
            if fsrc in STATIC_CALLS or fsrc.split(".")[-1] in ("bind",):
                return False
            args = list(e.args) + [k.value for k in e.keywords]
            if any(self.is_tainted(a.value if isinstance(a, ast.Starred) else a) for a in args):
                return True
            if isinstance(e.func, ast.Attribute) and self.is_tainted(e.func.value):
                return True
            return False
        if isinstance(e, ast.Compare):
            if all(isinstance(op, (ast.Is, ast.IsNot)) for op in e.ops):
                return False
            return self.is_tainted(e.left) or any(self.is_tainted(c) for c in e.comparators)
        if isinstance(e, ast.BoolOp):
            return any(self.is_tainted(v) for v in e.values)
        if isinstance(e, ast.BinOp):
            return self.is_tainted(e.left) or self.is_tainted(e.right)
        if isinstance(e, ast.UnaryOp):
            return self.is_tainted(e.operand)
        if isinstance(e, ast.IfExp):
            return self.is_tainted(e.body) or self.is_tainted(e.orelse)
        if isinstance(e, ast.Subscript):
            return self.is_tainted(e.value) or self.is_tainted(e.slice)
        if isinstance(e, ast.Slice):
            return any(self.is_tainted(x) for x in (e.lower, e.upper, e.step))
        if isinstance(e, (ast.Tuple, ast.List, ast.Set)):
            return any(self.is_tainted(x) for x in e.elts)
        if isinstance(e, ast.Starred):
            return self.is_tainted(e.value)
        if isinstance(e, (ast.ListComp, ast.GeneratorExp, ast.SetComp)):
            return self.is_tainted(e.elt)
        if isinstance(e, ast.Dict):
            return any(self.is_tainted(v) for v in e.values)
        if isinstance(e, ast.NamedExpr):
            return self.is_tainted(e.value)
        if isinstance(e, ast.JoinedStr):
            return False
        return False

    def bind(self, target, tainted: bool, value=None):
        if isinstance(target, ast.Name):
            if tainted and target.id not in self.tainted:
                self.tainted.add(target.id)
                return True
            return False
        ch = False
        if isinstance(target, (ast.Tuple, ast.List)):
            if value is not None and isinstance(value, (ast.Tuple, ast.List)) and len(value.elts) == len(target.elts):
                for t, v in zip(target.elts, value.elts):
                    ch |= self.bind(t, self.is_tainted(v), v)
            else:
                for t in target.elts:
                    ch |= self.bind(t, tainted)
        elif isinstance(target, ast.Starred):
            ch |= self.bind(target.value, tainted)
        return ch

    def loop_target_taint(self, it) -> bool:
        """Taint of the loop variable when iterating `it`."""
        if isinstance(it, ast.Call):
            f = ast.unparse(it.func)
            if f in ("enumerate",):
                return False  # handled elementwise below
            if f in ("zip", "reversed"):
                return any(self.is_tainted(a) for a in it.args)
            if f == "range":
                return False
        return self.is_tainted(it)

    def propagate(self):
        changed = True
        n = 0
        while changed and n < 20:
            changed = False
            n += 1
            for node in ast.walk(self.fn):
                if isinstance(node, ast.Assign):
                    t = self.is_tainted(node.value)
                    for tg in node.targets:
                        changed |= self.bind(tg, t, node.value)
                elif isinstance(node, ast.AnnAssign) and node.value is not None:
                    changed |= self.bind(node.target, self.is_tainted(node.value))
                elif isinstance(node, ast.AugAssign):
                    changed |= self.bind(node.target, self.is_tainted(node.value) or self.is_tainted(node.target))
                elif isinstance(node, (ast.For, ast.comprehension)):
                    it = node.iter
                    tg = node.target
                    if isinstance(it, ast.Call) and ast.unparse(it.func) == "enumerate" and isinstance(tg, ast.Tuple) \
                            and len(tg.elts) == 2:
                        changed |= self.bind(tg.elts[1], self.is_tainted(it.args[0]) if it.args else False)
                    elif isinstance(it, ast.Call) and ast.unparse(it.func) == "zip" and isinstance(tg, ast.Tuple) \
                            and len(tg.elts) == len(it.args):
                        for t1, a1 in zip(tg.elts, it.args):
                            changed |= self.bind(t1, self.is_tainted(a1))
                    else:
                        changed |= self.bind(tg, self.loop_target_taint(it))
                elif isinstance(node, ast.NamedExpr):
                    changed |= self.bind(node.target, self.is_tainted(node.value))
                elif isinstance(node, (ast.FunctionDef, ast.Lambda)) and node is not self.fn:
                    changed |= self._nested_params(node)

    def _uses_of_nested(self, node):
        """How a nested def / lambda is used inside the analysed function:
        ('call', Call) - called directly by name; ('hof', [data exprs]) - handed to a higher-order call whose
        other arguments (and the arguments the result is immediately applied to) are its data; ('escape',) -
        anything else (returned, stored, decorated away)."""
        if self._parents is None:
            self._parents = {}
            for par in ast.walk(self.fn):
                for ch in ast.iter_child_nodes(par):
                    self._parents[id(ch)] = par
        refs = []
        if isinstance(node, ast.Lambda):
            refs = [node]
        else:
            refs = [n for n in ast.walk(self.fn) if isinstance(n, ast.Name) and n.id == node.name
                    and isinstance(n.ctx, ast.Load)]
            if not refs:
                return [("escape",)]
        uses = []
        for r in refs:
            par = self._parents.get(id(r))
            if isinstance(par, ast.keyword):
                par = self._parents.get(id(par))
            if isinstance(par, ast.Call) and par.func is r:
                uses.append(("call", par))
            elif isinstance(par, ast.Call):
                data = [a for a in list(par.args) + [k.value for k in par.keywords] if a is not r]
                outer = self._parents.get(id(par))
                if isinstance(outer, ast.Call) and outer.func is par:
                    data += list(outer.args) + [k.value for k in outer.keywords]
                elif isinstance(outer, ast.Assign) and len(outer.targets) == 1 and isinstance(outer.targets[0], ast.Name):
                    # g = H(f); ... g(x)
                    nm = outer.targets[0].id
                    for c in ast.walk(self.fn):
                        if isinstance(c, ast.Call) and isinstance(c.func, ast.Name) and c.func.id == nm:
                            data += list(c.args) + [k.value for k in c.keywords]
                    if not data:
                        uses.append(("escape",))
                        continue
                elif not data:
                    uses.append(("escape",))
                    continue
                uses.append(("hof", data))
            else:
                uses.append(("escape",))
        return uses

    def _nested_params(self, node) -> bool:
        a = node.args
        params = a.posonlyargs + a.args + a.kwonlyargs
        pos = a.posonlyargs + a.args
        uses = self._uses_of_nested(node)
        decorated = bool(getattr(node, "decorator_list", None))
        changed = False

        def taint(p):
            nonlocal changed
            if p.arg not in self.tainted:
                self.tainted.add(p.arg)
                changed = True

        if uses and not any(u[0] == "escape" for u in uses) and not (decorated and any(u[0] == "hof" for u in uses)):
            # parameter taint follows the actual arguments
            for u in uses:
                if u[0] == "call":
                    call = u[1]
                    if any(isinstance(x, ast.Starred) for x in call.args):
                        if any(self.is_tainted(x) for x in call.args):
                            for p in params:
                                taint(p)
                        continue
                    for i2, x in enumerate(call.args):
                        if i2 < len(pos) and self.is_tainted(x):
                            taint(pos[i2])
                        elif i2 >= len(pos) and a.vararg and self.is_tainted(x):
                            if a.vararg.arg not in self.tainted:
                                self.tainted.add(a.vararg.arg)
                                changed = True
                    for k in call.keywords:
                        if k.arg and self.is_tainted(k.value):
                            for p in params:
                                if p.arg == k.arg:
                                    taint(p)
                else:
                    if any(self.is_tainted(x.value if isinstance(x, ast.Starred) else x) for x in u[1]):
                        for p in params:
                            st = ann_is_static(ast.unparse(p.annotation) if getattr(p, "annotation", None) is not None else None)
                            if st is not True:
                                taint(p)
                        if a.vararg and a.vararg.arg not in self.tainted:
                            self.tainted.add(a.vararg.arg)
                            changed = True
            return changed
        # escapes (returned wrapper, stored callable): parameters are traced unless annotated static / objects
        for p in params:
            st = ann_is_static(ast.unparse(p.annotation) if getattr(p, "annotation", None) is not None else None)
            if st is True or p.arg in ("bijection", "method", "unwrappable", "module", "leaf", "d", "_",
                                       "linear", "f", "func", "fn"):
                continue
            taint(p)
        if a.vararg and a.vararg.arg not in self.tainted:
            self.tainted.add(a.vararg.arg)
            changed = True
        return changed

    # ------------------------------------------------------------------------ sinks
    def sinks(self):
        out = []

        def flag(node, what, expr):
            out.append((node.lineno, what, ast.unparse(expr)[:120]))

        for node in ast.walk(self.fn):
            tests = []
            if isinstance(node, (ast.If, ast.While, ast.IfExp, ast.Assert)):
                tests.append(node.test)
            elif isinstance(node, ast.comprehension):
                tests.extend(node.ifs)
            for t in tests:
                if self.is_tainted(t):
                    flag(node, f"Python control flow ({type(node).__name__}) on a traced value", t)
            if isinstance(node, ast.BoolOp):
                # `a and b` / `a or b` call bool() on their operands
                for v in node.values[:-1]:
                    if self.is_tainted(v):
                        flag(node, "boolean operator on a traced value", v)
            if isinstance(node, ast.UnaryOp) and isinstance(node.op, ast.Not) and self.is_tainted(node.operand):
                flag(node, "`not` on a traced value", node.operand)
            if isinstance(node, ast.Call):
                f = ast.unparse(node.func)
                args = list(node.args) + [k.value for k in node.keywords]
                if f in CONCRETISERS and any(self.is_tainted(a) for a in args):
                    flag(node, f"{f}() of a traced value", node)
                if isinstance(node.func, ast.Attribute) and node.func.attr in CONCRETISING_METHODS and self.is_tainted(node.func.value):
                    flag(node, f".{node.func.attr}() of a traced value", node)
                if f == "range" and any(self.is_tainted(a) for a in args):
                    flag(node, "range() of a traced value", node)
                if f.startswith(HOST_MODULES) and not f.startswith(("np.ndarray",)) and any(self.is_tainted(a) for a in args):
                    flag(node, f"host (NumPy/math) call {f} on a traced value", node)
                if f in ("jnp.where", "jnp.nonzero", "jnp.argwhere", "jnp.unique", "jnp.flatnonzero") and (
                        f != "jnp.where" or len(node.args) + len([k for k in node.keywords if k.arg in ("x", "y")]) == 1):
                    if not any(k.arg == "size" for k in node.keywords) and any(self.is_tainted(a) for a in args):
                        flag(node, f"value-dependent output shape: {f} without size=", node)
        return out
