"""L1: symbolic evaluation of function bodies into canonical terms.

Terms are nested tuples (hashable).  Nothing is executed: the interpreter walks the
AST with symbolic arguments.  See DESIGN.md section 2.2.

Term grammar (first element is the tag):
  ('sym', name)                       free symbol
  ('bv', level, i)                    bound variable (de Bruijn level)
  ('const', v)
  ('ext', qualname)                   resolved global (jax.numpy.exp, repo function/class)
  ('attr', obj, name)
  ('call', f, args, kwargs)           kwargs: sorted tuple of (name, term)
  ('tuple', items) ('list', items) ('dict', ((k, v), ...))
  ('sub', obj, idx) ('slice', lo, hi, step)
  ('add', items) ('mul', items) ('pow', a, b) ('matmul', a, b) ('binop', op, a, b)
  ('cmp', op, a, b) ('not', a) ('and', items) ('or', items)
  ('ite', c, a, b)
  ('lam', n, body)
  ('fold', iter, lam, inits)          first component of folding lam over iter
  ('map', lam, iter) ('filter', lam, iter)
  ('star', x) ('dstar', x)
  ('at', x, idx, op, v)               x.at[idx].op(v)
  ('unknown', why)                    poison: unmodelled construct
"""
from __future__ import annotations

import ast
from fractions import Fraction

from .model import AnalysisError, ClassInfo, Module, Program

# --------------------------------------------------------------------------- basics


def C(v):
    return ("const", v)


NONE = C(None)
TRUE = C(True)
FALSE = C(False)


def is_const(t):
    return isinstance(t, tuple) and t and t[0] == "const"


_KEYS: dict = {}  # id(term) -> (term, digest); keeps the term alive so ids stay valid


def key(t):
    """Structural digest of a term (memoised per object; terms are DAGs with heavy sharing,
    so neither repr nor tuple hashing, which both expand the DAG, are usable)."""
    if not isinstance(t, tuple):
        return repr(t)
    e = _KEYS.get(id(t))
    if e is not None and e[0] is t:
        return e[1]
    import hashlib
    h = hashlib.md5()
    for x in t:
        h.update(key(x).encode())
        h.update(b"|")
    h.update(b"T%d" % len(t))
    d = h.hexdigest()
    _KEYS[id(t)] = (t, d)
    return d


def same(a, b) -> bool:
    return a is b or key(a) == key(b)


def has_unknown(t) -> bool:
    return find_unknown(t) is not None


def find_unknown(t):
    seen = set()

    def go(t):
        if not isinstance(t, tuple) or id(t) in seen:
            return None
        seen.add(id(t))
        if t and t[0] == "unknown":
            return t
        for x in t:
            r = go(x)
            if r is not None:
                return r
        return None
    return go(t)


def walk(t):
    """Yield every distinct subterm object once (pre-order over the DAG)."""
    seen = set()
    stack = [t]
    while stack:
        x = stack.pop()
        if not isinstance(x, tuple) or id(x) in seen:
            continue
        seen.add(id(x))
        if x and isinstance(x[0], str):
            yield x
        stack.extend(reversed(x))


def subst(t, fn):
    """Bottom-up rewrite over the DAG: fn(term) -> term or None (keep)."""
    memo: dict = {}

    def go(t):
        if not isinstance(t, tuple):
            return t
        k = id(t)
        if k in memo:
            return memo[k][1]
        changed = False
        items = []
        for x in t:
            y = go(x)
            if y is not x:
                changed = True
            items.append(y)
        new = tuple(items) if changed else t
        if new and isinstance(new[0], str):
            if changed:
                new = renorm(new)
            r = fn(new)
            if r is not None:
                new = r
        memo[k] = (t, new)
        return new
    return go(t)


def free_bvs(t, level):
    """Indices i of the free occurrences of ('bv', level, i) in t.  A lam whose own binder level is
    `level` is a closed term created in another context: everything inside it is bound."""
    out: list = []
    seen = set()
    stack = [t]
    while stack:
        x = stack.pop()
        if not isinstance(x, tuple) or id(x) in seen:
            continue
        seen.add(id(x))
        if x and x[0] == "bv":
            if x[1] == level and x[2] not in out:
                out.append(x[2])
            continue
        if x and x[0] == "lam" and len(x) > 3 and x[3] == level:
            continue
        stack.extend(reversed(x))
    return out


def subst_free(t, level, fn):
    """Like subst, but does not descend into lams that re-bind `level` (capture-avoiding for the
    de Bruijn-level representation)."""
    memo: dict = {}

    def go(t):
        if not isinstance(t, tuple):
            return t
        if t and t[0] == "lam" and len(t) > 3 and t[3] == level:
            return t
        k = id(t)
        if k in memo:
            return memo[k][1]
        changed = False
        items = []
        for x in t:
            y = go(x)
            if y is not x:
                changed = True
            items.append(y)
        new = tuple(items) if changed else t
        if new and isinstance(new[0], str):
            if changed:
                new = renorm(new)
            r = fn(new)
            if r is not None:
                new = r
        memo[k] = (t, new)
        return new
    return go(t)


def renorm(t):
    """Re-canonicalise the head node after its children changed."""
    tag = t[0]
    if tag == "add":
        return mk_add(t[1])
    if tag == "mul":
        return mk_mul(t[1])
    if tag == "pow":
        return mk_pow(t[1], t[2])
    if tag == "sub":
        return proj_sub(t[1], t[2])
    if tag == "ite":
        return mk_ite(t[1], t[2], t[3])
    if tag == "not":
        return mk_not(t[1])
    if tag == "cmp":
        return mk_cmp(t[1], t[2], t[3])
    return t


# ---------------------------------------------------------------- arithmetic canon


def _num(t):
    if is_const(t) and isinstance(t[1], (int, float, Fraction)) and not isinstance(t[1], bool):
        return t[1]
    return None


def _as_fraction(v):
    if isinstance(v, float):
        if v != v or v in (float("inf"), float("-inf")):
            return None
        return Fraction(v)  # exact binary value
    return Fraction(v)


def mk_const_num(v):
    if isinstance(v, Fraction):
        if v.denominator == 1:
            return C(int(v))
        f = float(v)
        if Fraction(f) == v:
            return C(f)
        return C(v)
    return C(v)


def mk_add(items):
    flat = []
    total = Fraction(0)
    inexact = None
    for it in items:
        if it[0] == "add":
            sub = it[1]
        else:
            sub = (it,)
        for s in sub:
            n = _num(s)
            if n is not None:
                fr = _as_fraction(n)
                if fr is None:
                    flat.append(s)
                else:
                    total += fr
            else:
                flat.append(s)
    # combine like terms: coefficient * rest
    coeffs: dict = {}
    order = []
    for s in flat:
        c, rest = _split_coeff(s)
        k = key(rest)
        if k not in coeffs:
            coeffs[k] = [Fraction(0), rest]
            order.append(k)
        coeffs[k][0] += c
    out = []
    for k in order:
        c, rest = coeffs[k]
        if c == 0:
            continue
        out.append(_with_coeff(c, rest))
    if total != 0:
        out.append(mk_const_num(total))
    if not out:
        return C(0)
    if len(out) == 1:
        return out[0]
    out.sort(key=key)
    return ("add", tuple(out))


def _split_coeff(t):
    if t[0] == "mul":
        c = Fraction(1)
        rest = []
        for f in t[1]:
            n = _num(f)
            fr = _as_fraction(n) if n is not None else None
            if fr is not None:
                c *= fr
            else:
                rest.append(f)
        if not rest:
            return c, C(1)
        if len(rest) == 1:
            return c, rest[0]
        return c, ("mul", tuple(rest))
    return Fraction(1), t


def _with_coeff(c, rest):
    if rest == C(1):
        return mk_const_num(c)
    if c == 1:
        return rest
    return mk_mul((mk_const_num(c), rest))


def mk_mul(items):
    flat = []
    coef = Fraction(1)
    for it in items:
        sub = it[1] if it[0] == "mul" else (it,)
        for s in sub:
            n = _num(s)
            fr = _as_fraction(n) if n is not None else None
            if fr is not None:
                coef *= fr
            else:
                flat.append(s)
    if coef == 0:
        return C(0)
    # combine powers of the same base
    powers: dict = {}
    order = []
    for s in flat:
        if s[0] == "pow" and _num(s[2]) is not None and _as_fraction(_num(s[2])) is not None:
            base, e = s[1], _as_fraction(_num(s[2]))
        else:
            base, e = s, Fraction(1)
        k = key(base)
        if k not in powers:
            powers[k] = [base, Fraction(0)]
            order.append(k)
        powers[k][1] += e
    out = []
    for k in order:
        base, e = powers[k]
        if e == 0:
            continue
        out.append(base if e == 1 else ("pow", base, mk_const_num(e)))
    out.sort(key=key)
    if coef != 1:
        out.insert(0, mk_const_num(coef))
    if not out:
        return C(1)
    if len(out) == 1:
        return out[0]
    return ("mul", tuple(out))


def mk_neg(t):
    return mk_mul((C(-1), t))


def mk_pow(a, b):
    nb = _num(b)
    if nb is not None:
        fb = _as_fraction(nb)
        if fb == 1:
            return a
        if fb == 0:
            return C(1)
        na = _num(a)
        if na is not None and fb is not None and fb.denominator == 1 and _as_fraction(na) is not None:
            fa = _as_fraction(na)
            if fa != 0 or fb > 0:
                return mk_const_num(fa ** int(fb))
        if a[0] == "pow" and _num(a[2]) is not None and fb is not None and fb.denominator == 1:
            fa2 = _as_fraction(_num(a[2]))
            if fa2 is not None and fa2.denominator == 1:
                return mk_pow(a[1], mk_const_num(fa2 * fb))
        if a[0] == "mul" and fb is not None and fb.denominator == 1:
            return mk_mul(tuple(mk_pow(x, b) for x in a[1]))
    return ("pow", a, b)


def mk_div(a, b):
    return mk_mul((a, mk_pow(b, C(-1))))


def mk_not(a):
    if is_const(a):
        return C(not a[1])
    if a[0] == "not":
        return a[1]
    if a[0] == "cmp":
        inv = {"==": "!=", "!=": "==", "<": ">=", ">=": "<", ">": "<=", "<=": ">",
               "is": "is not", "is not": "is", "in": "not in", "not in": "in"}
        return mk_cmp(inv[a[1]], a[2], a[3])
    return ("not", a)


def _never_none(t):
    """Arithmetic, displays, results of jax array functions and array-style subscripts x[:, :, 0] are never None."""
    if t[0] in ("add", "mul", "pow", "tuple", "list", "at", "fold"):
        return t[0] != "fold"
    if t[0] == "call" and t[1][0] == "ext" and t[1][1].startswith(("jax.numpy.", "jax.nn.", "jax.lax.", "jax.scipy.")):
        return True
    if t[0] == "sub" and t[2][0] == "tuple" and any(x[0] == "slice" or x == NONE for x in t[2][1]):
        return True
    if t[0] == "ite":
        return _never_none(t[2]) and _never_none(t[3])
    return False


def mk_cmp(op, a, b):
    if is_const(a) and is_const(b):
        try:
            va, vb = a[1], b[1]
            r = {"==": va == vb, "!=": va != vb, "is": va is vb or (va == vb and type(va) is type(vb)),
                 "is not": not (va is vb or (va == vb and type(va) is type(vb)))}.get(op)
            if r is None and op in ("<", "<=", ">", ">="):
                r = {"<": va < vb, "<=": va <= vb, ">": va > vb, ">=": va >= vb}[op]
            if r is not None:
                return C(bool(r))
        except Exception:
            pass
    if op in ("in", "not in") and is_const(a) and b[0] in ("tuple", "list") and all(is_const(x) for x in b[1]):
        r_ = any(a[1] == x[1] and type(a[1]) is type(x[1]) for x in b[1])
        return C(r_ if op == "in" else not r_)
    # `t is None` for a term that is certainly an array / a number / a display: decided
    if op in ("is", "is not") and (a == NONE or b == NONE):
        t_ = b if a == NONE else a
        # next((i for i, x in enumerate(xs) if p(x)), None) is not None   ==   any(p(x) for x in xs)
        if t_[0] == "call" and t_[1] == ("ext", "builtins.next") and len(t_[2]) == 2 and t_[2][1] == NONE and not t_[3]:
            m_ = t_[2][0]
            elt_ok = False
            if m_[0] == "map" and m_[1][0] == "lam" and m_[1][1] == 1 and m_[2][0] == "filter":
                body_, f_ = m_[1][2], m_[2]
                lvl_ = m_[1][3] if len(m_[1]) > 3 else None
                src_ = f_[2]
                is_enum = src_[0] == "call" and src_[1] == ("ext", "builtins.enumerate")
                elt_ok = is_enum and body_[0] == "sub" and body_[1][0] == "bv" and body_[2] == C(0) and (
                    lvl_ is None or body_[1][1] == lvl_)
                if elt_ok:
                    any_ = ("call", ("ext", "builtins.any"), (("map", f_[1], src_),), ())
                    return any_ if op == "is not" else mk_not(any_)
        if _never_none(t_):
            return C(op == "is not")
    # (k1 if c else k2) == k  with constants: decided by c
    if op in ("==", "!="):
        for x, y in ((a, b), (b, a)):
            if x[0] == "ite" and is_const(x[2]) and is_const(x[3]) and is_const(y):
                e1, e2 = x[2] == y, x[3] == y
                if e1 and e2:
                    r = TRUE
                elif not e1 and not e2:
                    r = FALSE
                else:
                    r = x[1] if e1 else mk_not(x[1])
                return r if op == "==" else mk_not(r)
    # orientation normalisation: a > b  ==  b < a
    if op == ">":
        op, a, b = "<", b, a
    elif op == ">=":
        op, a, b = "<=", b, a
    elif op in ("==", "!=") and key(a) > key(b):
        a, b = b, a
    return ("cmp", op, a, b)


def mk_display(kind, items):
    """A list / tuple display; a starred conditional between two displays is lifted out:
    [a, *([] if c else [b])]  ==  ([a] if c else [a, b])"""
    for i, x in enumerate(items):
        if x[0] == "star" and x[1][0] == "ite" and all(
                y[0] in ("tuple", "list") and not any(z[0] == "star" for z in y[1]) for y in (x[1][2], x[1][3])):
            c, a, b = x[1][1], x[1][2], x[1][3]
            return mk_ite(c, mk_display(kind, items[:i] + tuple(a[1]) + items[i + 1:]),
                          mk_display(kind, items[:i] + tuple(b[1]) + items[i + 1:]))
    return (kind, tuple(items))


def mk_ite(c, a, b):
    if is_const(c):
        return a if c[1] else b
    if a == b:
        return a
    # inside the branch where c holds, a nested conditional on the same c is its first branch (and its second in the
    # other branch): (f(p if c else q) if c else g(p if c else q)) == (f(p) if c else g(q))
    if c[0] in ("sym", "bv", "attr", "cmp"):
        def _under(t, truth):
            def rw(s2):
                if s2[0] == "ite" and s2[1] == c:
                    return s2[2] if truth else s2[3]
                return None
            return subst(t, rw)
        if any(s2[0] == "ite" and s2[1] == c for s2 in walk(a)):
            a = _under(a, True)
        if any(s2[0] == "ite" and s2[1] == c for s2 in walk(b)):
            b = _under(b, False)
        if a == b:
            return a
    # normalise negated tests so `a if c else b` == `b if not c else a`
    if c[0] == "not":
        return ("ite", c[1], b, a)
    if c[0] == "cmp" and c[1] in ("!=", "is not", "not in"):
        return mk_ite(mk_not(c), b, a)
    if c[0] == "cmp" and c[1] == "is" and NONE in (c[2], c[3]):
        # on the branch where `x is None` holds, x IS None: (x if x is None else f(x)) == (None if x is None else f(x))
        x = c[3] if c[2] == NONE else c[2]
        if x != NONE and x[0] in ("sym", "bv", "attr"):
            kx = key(x)
            a2 = subst(a, lambda s2: NONE if s2[0] == x[0] and key(s2) == kx else None)
            if a2 is not a:
                a = a2
                if a == b:
                    return a
    if c[0] == "or":
        # De Morgan: one canonical spelling for conditions that are disjunctions
        return mk_ite(("and", tuple(mk_not(x) for x in c[1])), b, a)
    if c[0] == "cmp" and c[1] == "is" and NONE in (c[2], c[3]) and a == NONE and b[0] == "ite":
        # None if x is None else (x if B else X): where x is None the result IS x
        x = c[3] if c[2] == NONE else c[2]
        if b[2] == x:
            return mk_ite(_mk_and(mk_not(c), mk_not(b[1])), b[3], x)
        if b[3] == x:
            return mk_ite(_mk_and(mk_not(c), b[1]), b[2], x)
    # a nested conditional that shares a branch with the outer one is a single conditional on a conjunction:
    #   (P if b else Q) if a else P  ==  Q if (a and not b) else P        (and the three symmetric forms)
    if a[0] == "ite" and b[0] != "ite":
        if a[2] == b:
            return mk_ite(_mk_and(c, mk_not(a[1])), a[3], b)
        if a[3] == b:
            return mk_ite(_mk_and(c, a[1]), a[2], b)
    if b[0] == "ite" and a[0] != "ite":
        if b[2] == a:
            return mk_ite(_mk_and(mk_not(c), mk_not(b[1])), b[3], a)
        if b[3] == a:
            return mk_ite(_mk_and(mk_not(c), b[1]), b[2], a)
    return ("ite", c, a, b)


def _mk_and(x, y):
    items = []
    for t in (x, y):
        items.extend(t[1] if t[0] == "and" else [t])
    if any(t == FALSE for t in items):
        return FALSE
    items = [t for t in items if t != TRUE]
    if not items:
        return TRUE
    return items[0] if len(items) == 1 else ("and", tuple(items))


# ------------------------------------------------------------ projections / indexing


LIFTS = {
    "equinox.filter_vmap", "jax.vmap", "jax.numpy.vectorize", "equinox.filter_jit", "jax.jit",
}


# NamedTuple classes of the repository under analysis: qualified name -> field names in declaration order
NT_CLASSES: dict = {}


def nt_field(t, which):
    """Field of a NamedTuple constructor call, by index or by name; None when t is not one / field not given."""
    if t[0] == "call" and t[1][0] == "ext" and t[1][1] in NT_CLASSES and not any(a[0] == "star" for a in t[2]):
        fields = NT_CLASSES[t[1][1]]
        vals = dict(zip(fields, t[2]))
        vals.update({k: v for k, v in t[3] if k in fields})
        if isinstance(which, int):
            if -len(fields) <= which < len(fields):
                return vals.get(fields[which])
            return None
        return vals.get(which)
    return None


def proj(t, k: int):
    """Component k of a tuple-valued term, pushed through the constructs that commute
    with projection (ite, lifted functions, zip(*map), tuples)."""
    v = nt_field(t, k)
    if v is not None:
        return v
    if t[0] in ("tuple", "list"):
        if 0 <= k < len(t[1]) and not any(x[0] == "star" for x in t[1]):
            return t[1][k]
        if k < 0 and -k <= len(t[1]) and not any(x[0] == "star" for x in t[1]):
            return t[1][k]
    if t[0] == "ite":
        return mk_ite(t[1], proj(t[2], k), proj(t[3], k))
    if t[0] == "unknown":
        return t
    if t[0] == "call":
        f, args, kw = t[1], t[2], t[3]
        # lifted function: LIFT(fn, **kw)(args)[k] -> LIFT(proj_k . fn, **kw)(args)
        if f[0] == "call" and f[1][0] == "ext" and f[1][1] in LIFTS and f[2]:
            inner = f[2][0]
            pin = proj_fn(inner, k)
            if pin is not None:
                return ("call", ("call", f[1], (pin,) + f[2][1:], f[3]), args, kw)
        # zip(*map(fn, it))[k] -> map(proj_k . fn, it)
        if f == ("ext", "builtins.zip") and len(args) == 1 and args[0][0] == "star":
            m = args[0][1]
            if m[0] in ("map",):
                pin = proj_fn(m[1], k)
                if pin is not None:
                    return ("map", pin, m[2])
        # filter_value_and_grad(fn)(x)[0] -> fn(x)
        if k == 0 and f[0] == "call" and f[1] == ("ext", "equinox.filter_value_and_grad") and f[2]:
            return ("call", f[2][0], args, kw)
        # broadcast_arrays(a, b, ...)[k] is broadcast_to(x_k, broadcast_shapes(a.shape, b.shape, ...))
        if f == ("ext", "jax.numpy.broadcast_arrays") and not kw and 0 <= k < len(args) and not any(a[0] == "star" for a in args):
            return ("call", ("ext", "jax.numpy.broadcast_to"), (), (("array", args[k]), ("shape", _broadcast_shapes_of(args))))
    return ("sub", t, C(k))


def _broadcast_shapes_of(arrays):
    shapes = sorted((("attr", a, "shape") for a in arrays), key=key)
    return ("call", ("ext", "jax.numpy.broadcast_shapes"), tuple(shapes), ())


def proj_fn(fn, k):
    if fn[0] == "lam":
        return ("lam", fn[1], proj(fn[2], k)) + tuple(fn[3:])
    return None


def _shape_name(n: str) -> bool:
    n = n.lower()
    return n.endswith("shape") or n.endswith("shapes")


def is_seq_term(t) -> bool:
    """Is the term known to denote a Python sequence (tuple / list), so that `+` concatenates?  Literal sequences,
    concatenations, shape attributes / shape-named symbols (the repository's naming convention for tuples of ints),
    slices of those, and conditionals with such a branch."""
    h = t[0]
    if h in ("tuple", "list", "concat", "repeat"):
        return True
    if h == "attr":
        return _shape_name(t[2])
    if h == "sym":
        return _shape_name(t[1])
    if h == "sub":
        if t[2][0] == "slice":
            return is_seq_term(t[1])
        # an element of a sequence of shapes (shapes[0]) is a shape
        return t[1][0] in ("attr", "sym") and _shape_name(t[1][2] if t[1][0] == "attr" else t[1][1]) and \
            (t[1][2] if t[1][0] == "attr" else t[1][1]).lower().endswith("shapes")
    if h == "ite":
        return is_seq_term(t[2]) or is_seq_term(t[3])
    if h == "call" and t[1] in (("ext", "builtins.tuple"), ("ext", "builtins.list"), ("ext", "builtins.sorted")):
        return True
    return False


def proj_sub(obj, idx):
    if idx[0] == "slice" and idx[1] == C(0) and idx[3] in (NONE, C(1)):
        idx = ("slice", NONE, idx[2], NONE)      # x[0:k] is x[:k]
    elif idx[0] == "slice" and idx[3] == C(1):
        idx = ("slice", idx[1], idx[2], NONE)
    if is_const(idx) and isinstance(idx[1], int) and not isinstance(idx[1], bool):
        # xs[a:][k] is xs[a + k] for non-negative a, k
        if idx[1] >= 0 and obj[0] == "sub" and obj[2][0] == "slice" and is_const(obj[2][1]) and isinstance(obj[2][1][1], int) \
                and obj[2][1][1] >= 0 and obj[2][2] == NONE and obj[2][3] in (NONE, C(1)):
            return proj(obj[1], obj[2][1][1] + idx[1])
        return proj(obj, idx[1])
    if obj[0] == "excl_scan" and idx == ("slice", C(1), NONE, NONE):
        # dropping the leading 0 of the exclusive prefix sums leaves the running totals of all but the last item
        return ("call", ("ext", "itertools.accumulate"), (proj_sub(obj[1], ("slice", NONE, C(-1), NONE)),), ())
    if idx[0] == "slice" and obj[0] == "map":
        # a slice of a mapped sequence is the map of the sliced sequence
        return ("map", obj[1], proj_sub(obj[2], idx))
    if obj[0] in ("tuple", "list") and idx[0] == "slice" and all(
            is_const(x) for x in idx[1:]) and not any(x[0] == "star" for x in obj[1]):
        s = slice(idx[1][1], idx[2][1], idx[3][1])
        return (obj[0], tuple(obj[1][s]))
    if idx[0] == "slice" and idx[1] in (NONE, C(0)) and idx[2] == NONE and idx[3] in (NONE, C(1)):
        return obj  # x[:] / x[0:] / x[::1] has the elements of x
    if idx == ("slice", NONE, NONE, C(-1)):
        # x[::-1] is the reversed sequence
        return ("call", ("ext", "builtins.reversed"), (obj,), ())
    if obj[0] == "dict" and is_const(idx):
        for k, v in obj[1]:
            if k == idx:
                return v
    if obj[0] == "dict" and len(obj[1]) == 2 and {k for k, _ in obj[1]} == {TRUE, FALSE}:
        # a two-entry table keyed by a flag: table[bool(flag)] is the conditional on the flag
        vt = next(v for k, v in obj[1] if k == TRUE)
        vf = next(v for k, v in obj[1] if k == FALSE)
        c_ = idx
        if c_[0] == "call" and c_[1] == ("ext", "builtins.bool") and len(c_[2]) == 1 and not c_[3]:
            c_ = c_[2][0]
            return mk_ite(c_, vt, vf)
    return ("sub", obj, idx)


# ----------------------------------------------------------------- signature table

# name -> (positional parameter names, defaults to elide)
SIGS: dict[str, tuple[tuple[str, ...], dict]] = {}


def _sig(q, params, **defaults):
    SIGS[q] = (tuple(params.split()), {k: C(v) for k, v in defaults.items()})


for _q in ("exp", "tanh", "log", "sqrt"):
    SIGS[f"math.{_q}"] = (("a",), {})
for _q in ("exp log log1p expm1 abs sign tanh arctanh sqrt isnan isfinite negative square "
           "reciprocal logical_not sort ravel argmin argmax shape size ndim "
           "transpose diag_indices cosh sinh cos sin arcsinh arccosh floor ceil round cbrt").split():
    _sig(f"jax.numpy.{_q}", "a")
_sig("jax.numpy.asarray", "a dtype", dtype=None)
_sig("jax.numpy.array", "a dtype", dtype=None)
_sig("jax.numpy.where", "condition x y")
_sig("jax.numpy.sum", "a axis", axis=None)
_sig("jax.numpy.mean", "a axis", axis=None)
_sig("jax.numpy.prod", "a axis", axis=None)
_sig("jax.numpy.cumsum", "a axis", axis=None)
_sig("jax.numpy.amax", "a axis out keepdims", axis=None, out=None, keepdims=False)
_sig("jax.numpy.max", "a axis out keepdims", axis=None, out=None, keepdims=False)
_sig("jax.numpy.clip", "a min max", min=None, max=None)
_sig("jax.numpy.maximum", "x1 x2")
_sig("jax.numpy.minimum", "x1 x2")
_sig("jax.numpy.concatenate", "arrays axis", axis=0)
_sig("jax.numpy.stack", "arrays axis", axis=0)
_sig("jax.numpy.hstack", "arrays")
_sig("jax.numpy.split", "ary indices_or_sections axis", axis=0)
_sig("jax.numpy.array_split", "ary indices_or_sections axis", axis=0)
_sig("jax.numpy.squeeze", "a axis", axis=None)
_sig("jax.numpy.reshape", "a shape")
_sig("jax.numpy.searchsorted", "a v side", side="left")
_sig("jax.numpy.digitize", "x bins right", right=False)
_sig("jax.numpy.nan_to_num", "x copy nan posinf neginf", copy=True)
_sig("jax.numpy.append", "arr values axis", axis=None)
_sig("jax.numpy.ravel", "a")
_sig("jax.numpy.pad", "array pad_width mode", mode="constant")
_sig("jax.numpy.full", "shape fill_value dtype", dtype=None)
_sig("jax.numpy.zeros", "shape dtype", dtype=None)
_sig("jax.numpy.ones", "shape dtype", dtype=None)
_sig("jax.numpy.empty", "shape dtype", dtype=None)
_sig("jax.numpy.diag", "v k", k=0)
_sig("jax.numpy.tril", "m k", k=0)
_sig("jax.numpy.triu", "m k", k=0)
_sig("jax.numpy.flip", "m axis", axis=None)
_sig("jax.numpy.append", "arr values axis", axis=None)
_sig("jax.numpy.delete", "arr obj axis", axis=None)
_sig("jax.numpy.broadcast_to", "array shape")
_sig("jax.numpy.unravel_index", "indices shape")
_sig("jax.numpy.argsort", "a axis", axis=-1)
_sig("jax.numpy.logical_and", "x1 x2")
_sig("jax.numpy.logical_or", "x1 x2")
_sig("jax.numpy.matmul", "x1 x2")
_sig("jax.numpy.repeat", "a repeats axis", axis=None)
_sig("jax.numpy.linalg.norm", "x ord axis keepdims", ord=None, axis=None, keepdims=False)
_sig("jax.numpy.linalg.cholesky", "a")
_sig("jax.nn.softplus", "x")
_sig("jax.nn.softmax", "x axis", axis=-1)
_sig("jax.nn.log_softmax", "x axis", axis=-1)
_sig("jax.nn.leaky_relu", "x negative_slope", negative_slope=0.01)
_sig("jax.scipy.special.logsumexp", "a axis", axis=None)
_sig("jax.scipy.linalg.solve_triangular", "a b trans lower", trans=0, lower=False)
_sig("jax.lax.stop_gradient", "x")
_sig("jax.lax.while_loop", "cond_fun body_fun init_val")
_sig("jax.random.split", "key num", num=2)
for _q in ("norm", "uniform", "cauchy", "laplace", "logistic", "gumbel_r", "expon"):
    _sig(f"jax.scipy.stats.{_q}.logpdf", "x loc scale", loc=0, scale=1)
_sig("jax.scipy.stats.t.logpdf", "x df loc scale", loc=0, scale=1)
_sig("jax.numpy.delete", "arr obj axis", axis=None)
_sig("equinox.nn.MLP", "in_size out_size width_size depth activation final_activation use_bias use_final_bias",
     use_bias=True, use_final_bias=True)
_sig("jax.random.permutation", "key x axis independent", axis=0, independent=False)
_sig("jax.random.choice", "key a shape replace p axis", shape=(), replace=True, p=None, axis=0)
_sig("jax.random.categorical", "key logits axis shape", axis=-1, shape=None)
for _q in "normal gumbel cauchy laplace exponential logistic".split():
    _sig(f"jax.random.{_q}", "key shape dtype", dtype=None)
_sig("jax.random.uniform", "key shape dtype minval maxval", dtype=None, minval=0.0, maxval=1.0)
_sig("jax.random.t", "key df shape dtype", dtype=None)
_sig("equinox.partition", "pytree filter_spec replace is_leaf", replace=None, is_leaf=None)
_sig("equinox.combine", "*pytrees")
_sig("equinox.error_if", "x pred msg")
_sig("equinox.apply_updates", "model updates")
_sig("equinox.tree_at", "where pytree replace replace_fn is_leaf", is_leaf=None)
_sig("jax.tree_util.tree_map", "f tree *rest is_leaf", is_leaf=None)
_sig("jax.tree_util.tree_leaves", "tree is_leaf", is_leaf=None)

# method name on an array-valued term -> jnp function (first arg = receiver)
ARRAY_METHODS = {
    "sum": "jax.numpy.sum", "mean": "jax.numpy.mean", "prod": "jax.numpy.prod",
    "squeeze": "jax.numpy.squeeze", "ravel": "jax.numpy.ravel", "sort": "jax.numpy.sort",
    "cumsum": "jax.numpy.cumsum", "max": "jax.numpy.max", "argsort": "jax.numpy.argsort",
    "argmin": "jax.numpy.argmin", "argmax": "jax.numpy.argmax",
}

# heads considered equal (one line of reason each)
HEAD_ALIASES = {
    # hstack == concatenate for the rank-1 operands of Coupling/MaskedAutoregressive
    "jax.numpy.hstack": "jax.numpy.concatenate",
    # array_split == split when given explicit split indices
    "jax.numpy.array_split": "jax.numpy.split",
    "jax.numpy.amax": "jax.numpy.max",
    # Python's math functions on scalars compute the same real functions as jnp's
    "math.exp": "jax.numpy.exp", "math.tanh": "jax.numpy.tanh", "math.log": "jax.numpy.log",
    "math.sqrt": "jax.numpy.sqrt",
}


def norm_call(f, args, kwargs, prog: Program | None = None):
    """Canonical call: positional -> keyword by the signature table, defaults elided."""
    kwargs = dict(kwargs)
    if f[0] == "ext":
        q = f[1]
        if HEAD_ALIASES.get(q):
            q2 = HEAD_ALIASES[q]
            if q == "jax.numpy.hstack":
                # hstack(tup) -> concatenate(arrays=tup)
                if len(args) == 1 and not kwargs:
                    return norm_call(("ext", q2), args, {}, prog)
            else:
                return norm_call(("ext", q2), args, kwargs, prog)
        sig = SIGS.get(q)
        if sig is None and prog is not None:
            sig = repo_sig(prog, q)
        if sig is not None and not any(a[0] in ("star",) for a in args) and not any(
                k.startswith("**") for k in kwargs):
            params, defaults = sig
            star = [p for p in params if p.startswith("*")]
            fixed = [p for p in params if not p.startswith("*")]
            if not star and len(args) <= len(fixed):
                ok = True
                for p, a in zip(fixed, args):
                    if p in kwargs:
                        ok = False
                    kwargs[p] = a
                if ok:
                    args = ()
            elif star:
                # bind the parameters that precede *args; surplus positionals stay positional
                lead = []
                for p in params:
                    if p.startswith("*"):
                        break
                    lead.append(p)
                if len(args) <= len(lead) and not any(p in kwargs for p in lead[:len(args)]):
                    for p, a in zip(lead, args):
                        kwargs[p] = a
                    args = ()
            for k, dv in defaults.items():
                if k in kwargs and kwargs[k] == dv:
                    del kwargs[k]
        # structural aliases
        if q == "jax.numpy.digitize" and not args and {"x", "bins"} <= set(kwargs) <= {"x", "bins", "right"} and \
                is_const(kwargs.get("right", C(False))):
            # numpy: for increasing bins, digitize(x, bins, right=r) == searchsorted(bins, x, side='left' if r else 'right')
            side = "left" if kwargs.get("right", C(False))[1] else "right"
            return norm_call(("ext", "jax.numpy.searchsorted"), (), {"a": kwargs["bins"], "v": kwargs["x"], "side": C(side)}, prog)
        CMPF = {"jax.numpy.greater_equal": ">=", "jax.numpy.greater": ">", "jax.numpy.less": "<",
                "jax.numpy.less_equal": "<=", "jax.numpy.equal": "==", "jax.numpy.not_equal": "!="}
        if q in CMPF and len(args) + len(kwargs) == 2:
            a2 = list(args) + [kwargs[k] for k in ("x1", "x2") if k in kwargs]
            if len(a2) == 2:
                return mk_cmp(CMPF[q], a2[0], a2[1])
        if q == "jax.numpy.where" and not args and set(kwargs) == {"condition", "x", "y"}:
            c0, x0, y0 = kwargs["condition"], kwargs["x"], kwargs["y"]

            def like(v):
                if v[0] == "call" and v[1] in (("ext", "jax.numpy.zeros_like"), ("ext", "jax.numpy.ones_like")) and \
                        len(v[2]) + len(v[3]) == 1:
                    return C(0 if v[1][1].endswith("zeros_like") else 1)   # a selection broadcasts its branches
                return v
            x1, y1 = like(x0), like(y0)
            neg = None
            if c0[0] == "not":
                neg = c0[1]
            elif c0[0] == "call" and c0[1] == ("ext", "jax.numpy.logical_not") and len(c0[2]) + len(c0[3]) == 1:
                neg = c0[2][0] if c0[2] else c0[3][0][1]
            if neg is not None:
                # where(not c, a, b) selects exactly what where(c, b, a) selects
                return norm_call(f, (), {"condition": neg, "x": y1, "y": x1}, prog)
            if x1 is not x0 or y1 is not y0:
                kwargs = {"condition": c0, "x": x1, "y": y1}
        if q == "jax.numpy.append" and not args and set(kwargs) == {"arr", "values"}:
            # numpy: append(arr, values) with axis=None is concatenate((ravel(arr), ravel(values)))
            rv = lambda a: norm_call(("ext", "jax.numpy.ravel"), (), {"a": a}, prog)
            return norm_call(("ext", "jax.numpy.concatenate"), (), {
                "arrays": ("list", (rv(kwargs["arr"]), rv(kwargs["values"])))}, prog)
        if q == "jax.numpy.nan_to_num" and not args and set(kwargs) == {"x", "nan", "posinf", "neginf"} and \
                kwargs["posinf"] == ("ext", "jax.numpy.inf") and kwargs["neginf"] == mk_neg(("ext", "jax.numpy.inf")):
            # infinities kept: only NaN is replaced
            v = kwargs["x"]
            return norm_call(("ext", "jax.numpy.where"), (), {
                "condition": norm_call(("ext", "jax.numpy.isnan"), (), {"a": v}, prog), "x": kwargs["nan"], "y": v}, prog)
        if q.startswith("jax.") and "shape" in kwargs:
            sh = kwargs["shape"]
            if sh[0] == "call" and sh[1] in (("ext", "builtins.list"), ("ext", "builtins.tuple")) and len(sh[2]) == 1 and not sh[3]:
                # jax canonicalises shapes: a list and a tuple of the same extents are one shape
                kwargs = dict(kwargs, shape=sh[2][0])
        if q == "jax.numpy.broadcast_shapes" and args and not kwargs:
            args = tuple(sorted(args, key=key))  # commutative
        if q == "jax.nn.leaky_relu" and not args and "x" in kwargs:
            # documented definition: where(x >= 0, x, negative_slope * x)
            a_ = kwargs.get("negative_slope", C(0.01))
            x_ = kwargs["x"]
            return norm_call(("ext", "jax.numpy.where"), (), {"condition": mk_cmp(">=", x_, C(0)), "x": x_,
                                                               "y": mk_mul((a_, x_))}, prog)
        if q == "flowjax.utils.arraylike_to_array" and kwargs.get("dtype") == C(None):
            kwargs = {k: v for k, v in kwargs.items() if k != "dtype"}  # forwarded to jnp.asarray, whose default it is
        if q == "equinox.filter_vmap":
            dflt = ("call", ("ext", "equinox.if_array"), (C(0),), ())
            dflt2 = ("call", ("ext", "equinox.if_array"), (), (("axis", C(0)),))
            kwargs = {k: v for k, v in kwargs.items() if not (k in ("in_axes", "out_axes") and v in (dflt, dflt2))}
        if q == "builtins.zip" and "strict" in kwargs:
            # strict=True only adds an error for sequences of unequal length; the pairs produced are the same
            kwargs = {k: v for k, v in kwargs.items() if k != "strict"}
        if q == "jax.numpy.negative" and "a" in kwargs and len(kwargs) == 1:
            return mk_neg(kwargs["a"])
        if q == "jax.numpy.square" and "a" in kwargs and len(kwargs) == 1:
            return mk_pow(kwargs["a"], C(2))
        if q == "jax.numpy.reciprocal" and "a" in kwargs and len(kwargs) == 1:
            return mk_pow(kwargs["a"], C(-1))
        # zero constants are identified: jnp.zeros(()), jnp.array(0), jnp.asarray(0.0)
        if q in ("jax.numpy.zeros", "jax.numpy.ones") and set(kwargs) == {"shape"} and kwargs["shape"] == ("tuple", ()):
            return C(0 if q.endswith("zeros") else 1)
        if q in ("jax.numpy.array", "jax.numpy.asarray") and set(kwargs) == {"a"} and _num(kwargs["a"]) is not None:
            return kwargs["a"]
        if q == "jax.numpy.shape" and set(kwargs) == {"a"} and kwargs["a"][0] not in ("const", "tuple", "list"):
            return ("attr", kwargs["a"], "shape")
        if q == "flowjax.wrappers.unwrap" and (set(kwargs) == {"tree"} or (len(args) == 1 and not kwargs)):
            a0 = kwargs.get("tree") if kwargs else args[0]
            # unwrapping the result of a jax.numpy call (a plain array) is the identity
            if a0[0] == "call" and a0[1][0] == "ext" and a0[1][1].startswith("jax.numpy."):
                return a0
        if q == "jax.numpy.matmul" and set(kwargs) == {"x1", "x2"}:
            return ("matmul", kwargs["x1"], kwargs["x2"])
        if q == "builtins.len" and len(args) == 1 and args[0][0] in ("tuple", "list") and not any(
                x[0] == "star" for x in args[0][1]):
            return C(len(args[0][1]))
        f = ("ext", q)
    return ("call", f, tuple(args), tuple(sorted(kwargs.items())))


_REPO_SIG_CACHE: dict = {}


def repo_sig(prog: Program, q: str):
    if q in _REPO_SIG_CACHE:
        return _REPO_SIG_CACHE[q]
    r = prog.lookup(q)
    sig = None
    fn = None
    skip_self = False
    if r and r[0] == "func":
        fn = r[2]
    elif r and r[0] == "class":
        m = prog.find_method(r[1], "__init__")
        if m:
            fn = m[1]
            skip_self = True
        else:
            # dataclass-style: fields in order (non-ClassVar)
            names = [f.name for f in prog.all_fields(r[1]).values()
                     if not f.classvar and not f.ann_src.startswith(("AbstractVar", "eqx.AbstractVar"))]
            sig = (tuple(names), {})
    if fn is not None:
        a = fn.args
        pos = [x.arg for x in a.posonlyargs + a.args]
        if skip_self:
            pos = pos[1:]
        params = list(pos)
        if a.vararg:
            params.append("*" + a.vararg.arg)
        defaults = {}
        dnodes = a.defaults
        for name, d in zip(pos[len(pos) - len(dnodes):], dnodes):
            if isinstance(d, ast.Constant):
                defaults[name] = C(d.value)
        for kwo, d in zip(a.kwonlyargs, a.kw_defaults):
            if d is not None and isinstance(d, ast.Constant):
                defaults[kwo.arg] = C(d.value)
        # a keyword passed with exactly its declared constant default is the same call as leaving it out
        sig = (tuple(params), defaults)
    _REPO_SIG_CACHE[q] = sig
    return sig


# ------------------------------------------------------------------- interpreter


class Closure:
    def __init__(self, node, env, interp_ctx, name="<lambda>"):
        self.node = node  # FunctionDef or Lambda
        self.env = env
        self.ctx = interp_ctx  # (module, cls, self_term)
        self.name = name


class BoundMethod:
    """self.<method> evaluated in a class context (keeps the context for later inlining)."""

    def __init__(self, owner, fn, cls, self_term, name):
        self.owner, self.fn, self.cls, self.self_term, self.name = owner, fn, cls, self_term, name


class CondCallable:
    """`f = g if c else h` (or the two branches of an if statement binding a callable): f(args) is g(args) if c else h(args)."""

    def __init__(self, test, a, b):
        self.test, self.a, self.b = test, a, b


class Partial:
    def __init__(self, fn, args, kwargs):
        self.fn, self.args, self.kwargs = fn, tuple(args), dict(kwargs)


class Env:
    def __init__(self, parent=None):
        self.vars: dict = {}
        self.parent = parent

    def get(self, name):
        e = self
        while e is not None:
            if name in e.vars:
                return e.vars[name]
            e = e.parent
        return None

    def has(self, name):
        return self.get(name) is not None

    def set(self, name, val):
        self.vars[name] = val

    def copy(self):
        e = Env(self.parent)
        e.vars = dict(self.vars)
        return e


class _Break(Exception):
    pass


FOUR = ("transform", "transform_and_log_det", "inverse", "inverse_and_log_det")
MAX_INLINE = 8


# value of wrappers.Lambda(fn, *args, **kwargs).unwrap() = fn(*args, **kwargs), computed where the Lambda is
# constructed (fn still a closure / partial / callable instance): (id(program), key(Lambda term)) -> value term
LAMBDA_VALUES: dict = {}


def _simple_value(t) -> bool:
    """A parameter passed through as given (symbol, constant, tuple / conditional / negation of such): no operation
    is hidden in it, so it need not be abstracted as a RAW leaf (whether it is a leaf is the leaf rules' business)."""
    h = t[0]
    if h in ("const", "sym", "ext"):
        return True
    if h in ("tuple", "list"):
        return all(_simple_value(x) for x in t[1])
    if h == "ite":
        return _simple_value(t[2]) and _simple_value(t[3])
    if h == "mul":
        return len(t[1]) == 2 and any(is_const(x) for x in t[1]) and all(_simple_value(x) for x in t[1])
    if h == "sub":
        return _simple_value(t[1]) and is_const(t[2])
    return False


def lambda_normal(prog, t):
    """Replace each wrappers.Lambda(...) subterm whose value is known by Lambda$value(body, RAW$i=init_i ...): body is
    the callable applied to its pytree children as opaque RAW leaves, the keywords give their initial values.  Two
    Lambdas compare equal iff they compute the same function of the same trainable leaves, however the callable is
    spelled (closure, partial, callable object) - but NOT if an operation moved from the unwrap into the leaf's initial
    value (a mask applied once at construction)."""
    def f(s):
        if s[0] == "call" and s[1] == ("ext", "flowjax.wrappers.Lambda"):
            v = LAMBDA_VALUES.get((id(prog), key(s)))
            if v is not None:
                return ("call", ("ext", "flowjax.wrappers.Lambda$value"), (v[0],), v[1])
        return None
    return subst(t, f)


def _late_bound_rewrite(nodes, targets, escaping_only=False):
    """Python closures bind names late: a lambda / def created inside a comprehension or loop that reads the iteration
    variable sees its value at CALL time (after a list comprehension: the LAST element), unless it was captured through
    a default argument.  Returns (rewritten copies of nodes, set of captured target names): inside such closures the
    free reads of a target name t are renamed __late_t.  With escaping_only, only closures that are stored (assigned,
    appended, returned) are rewritten - one handed directly to a call is taken to be consumed within the iteration."""
    import copy
    captured = set()
    escaping_calls = {"append", "insert", "extend", "add", "setdefault", "update"}

    def free_reads(fn):
        params = {a.arg for a in fn.args.posonlyargs + fn.args.args + fn.args.kwonlyargs}
        if fn.args.vararg:
            params.add(fn.args.vararg.arg)
        if fn.args.kwarg:
            params.add(fn.args.kwarg.arg)
        body = [fn.body] if isinstance(fn, ast.Lambda) else fn.body
        out = []
        for b in body:
            for n in ast.walk(b):
                if isinstance(n, ast.Name) and isinstance(n.ctx, ast.Load) and n.id in targets and n.id not in params:
                    out.append(n)
        return out

    def called_names(stmts):
        return {c.func.id for s_ in stmts for c in ast.walk(s_) if isinstance(c, ast.Call) and isinstance(c.func, ast.Name)}

    def escapes(par, fn, stmts):
        if isinstance(fn, ast.FunctionDef):
            return fn.name not in called_names(stmts)  # a nested def called in the same iteration is consumed there
        p = par.get(fn)
        if isinstance(p, ast.Assign) and len(p.targets) == 1 and isinstance(p.targets[0], ast.Name):
            return p.targets[0].id not in called_names(stmts)
        if isinstance(p, ast.Call):
            if p.func is fn:
                return False  # immediately invoked
            f = p.func
            if isinstance(f, ast.Attribute) and f.attr in escaping_calls:
                return True
            return False
        if isinstance(p, ast.keyword):
            return False
        return True  # assigned, put in a container display, returned, yielded ...

    new = [copy.deepcopy(n) for n in nodes]
    root_all = new
    for root in new:
        par = {}
        for n in ast.walk(root):
            for ch in ast.iter_child_nodes(n):
                par[ch] = n
        for n in list(ast.walk(root)):
            if isinstance(n, (ast.Lambda, ast.FunctionDef)) and (n is not root or isinstance(n, ast.Lambda)):
                if escaping_only and not escapes(par, n, root_all):
                    continue
                for nm in free_reads(n):
                    captured.add(nm.id)
                    nm.id = "__late_" + nm.id
    return new, captured


def _match_to_if(st: ast.Match, tmp: str):
    """`match` with value / singleton / class / capture / wildcard / or patterns as the equivalent if-chain over a
    temporary holding the subject (sequence and mapping patterns are not modelled)."""
    subj = ast.Name(id=tmp, ctx=ast.Load())

    def test(pat):
        """Returns (test expr, [binding statements])."""
        if isinstance(pat, ast.MatchValue):
            return ast.Compare(left=subj, ops=[ast.Eq()], comparators=[pat.value]), []
        if isinstance(pat, ast.MatchSingleton):
            return ast.Compare(left=subj, ops=[ast.Is()], comparators=[ast.Constant(value=pat.value)]), []
        if isinstance(pat, ast.MatchClass) and not pat.patterns and not pat.kwd_patterns:
            return ast.Call(func=ast.Name(id="isinstance", ctx=ast.Load()), args=[subj, pat.cls], keywords=[]), []
        if isinstance(pat, ast.MatchAs):
            binds = [ast.Assign(targets=[ast.Name(id=pat.name, ctx=ast.Store())], value=subj, lineno=st.lineno)] \
                if pat.name else []
            if pat.pattern is None:
                return ast.Constant(value=True), binds
            t, b = test(pat.pattern)
            return t, b + binds
        if isinstance(pat, ast.MatchSequence) and not any(isinstance(e, ast.MatchStar) for e in pat.patterns):
            n = len(pat.patterns)
            subj_src = st.subject
            if isinstance(subj_src, ast.Attribute) and subj_src.attr == "shape":
                # a shape is a tuple: the sequence test is its length, spelled as the owner's ndim
                tests = [ast.Compare(left=ast.Attribute(value=subj_src.value, attr="ndim", ctx=ast.Load()), ops=[ast.Eq()],
                                     comparators=[ast.Constant(value=n)])]
            else:
                tests = [ast.Call(func=ast.Name(id="isinstance", ctx=ast.Load()),
                                  args=[subj, ast.Tuple(elts=[ast.Name(id="tuple", ctx=ast.Load()),
                                                              ast.Name(id="list", ctx=ast.Load())], ctx=ast.Load())], keywords=[]),
                         ast.Compare(left=ast.Call(func=ast.Name(id="len", ctx=ast.Load()), args=[subj], keywords=[]),
                                     ops=[ast.Eq()], comparators=[ast.Constant(value=n)])]
            binds = []
            for i, e in enumerate(pat.patterns):
                elem = ast.Subscript(value=subj, slice=ast.Constant(value=i), ctx=ast.Load())
                if isinstance(e, ast.MatchAs) and e.pattern is None:
                    if e.name:
                        binds.append(ast.Assign(targets=[ast.Name(id=e.name, ctx=ast.Store())], value=elem, lineno=st.lineno))
                elif isinstance(e, ast.MatchValue):
                    tests.append(ast.Compare(left=elem, ops=[ast.Eq()], comparators=[e.value]))
                else:
                    raise AnalysisError("match: nested sequence element pattern is not modelled")
            return (tests[0] if len(tests) == 1 else ast.BoolOp(op=ast.And(), values=tests)), binds
        if isinstance(pat, ast.MatchOr):
            parts = [test(p_) for p_ in pat.patterns]
            if any(b for _, b in parts):
                raise AnalysisError("match: capture inside an or-pattern is not modelled")
            return ast.BoolOp(op=ast.Or(), values=[t for t, _ in parts]), []
        raise AnalysisError(f"match pattern {type(pat).__name__} is not modelled")

    node = None
    for case in reversed(st.cases):
        t, binds = test(case.pattern)
        if case.guard is not None:
            if binds:
                # substitute the captured names in the guard by what they are bound to
                import copy
                bmap = {b.targets[0].id: b.value for b in binds}

                class _Sub(ast.NodeTransformer):
                    def visit_Name(self, node):
                        if isinstance(node.ctx, ast.Load) and node.id in bmap:
                            return copy.deepcopy(bmap[node.id])
                        return node
                g = _Sub().visit(copy.deepcopy(case.guard))
            else:
                g = case.guard
            t = ast.BoolOp(op=ast.And(), values=[t, g])
        body = binds + list(case.body)
        if isinstance(t, ast.Constant) and t.value is True:
            node = body
        else:
            node = [ast.If(test=t, body=body, orelse=node or [], lineno=case.pattern.lineno if hasattr(case.pattern, "lineno") else st.lineno,
                           col_offset=0)]
    out = [ast.Assign(targets=[ast.Name(id=tmp, ctx=ast.Store())], value=st.subject, lineno=st.lineno)] + (node or [])
    for n in out:
        ast.fix_missing_locations(n)
    return out


class Interp:
    def __init__(self, prog: Program, *, inline_repo=True, fold_classvars=True,
                 no_inline: set[str] | None = None):
        self.prog = prog
        self.depth = 0
        self.inline_depth = 0
        self.guards: list = []
        self.effects: list = []
        self.inline_repo = inline_repo
        self.fold_classvars = fold_classvars
        self.no_inline = set(no_inline or ()) | {"flowjax.wrappers.unwrap"}
        self.stack: list[str] = []
        self.self_fields: dict | None = None  # when evaluating a constructor
        self.last_env = None
        self.path: list = []
        self.break_as_flag = False
        self.cond_effects: list = []
        self._alias_stack: list = []
        self.inline_properties = False   # opt-in: evaluate `self.<property>` through the property's body
        NT_CLASSES.clear()
        for q, c in prog.classes.items():
            if any(b.endswith("NamedTuple") for b in c.bases):
                NT_CLASSES[q] = [f for f, fi in c.fields.items() if not fi.classvar]

    # ---------------------------------------------------------------- entry points
    def eval_method(self, cls: ClassInfo, name: str, args, kwargs=None, self_term=("sym", "self")):
        r = self.prog.find_method(cls, name)
        if r is None:
            raise AnalysisError(f"method {cls.qualname}.{name} not found")
        owner, fn = r
        ctx = (owner.module, cls, self_term)
        kwargs = dict(kwargs or {})
        for p in self.prog.new_passed_params(f"{owner.qualname}.{name}", fn):
            kwargs.setdefault(p, ("sym", "NEW_" + p.upper()))
        return self.apply_method(fn, ctx, [self_term] + list(args), kwargs)

    def eval_function(self, qual: str, args, kwargs=None):
        m, fn = self.prog.func(qual)
        kwargs = dict(kwargs or {})
        for p in self.prog.new_passed_params(f"{m.name}.{fn.name}", fn):
            kwargs.setdefault(p, ("sym", "NEW_" + p.upper()))
        return self.apply_def(fn, Env(), (m, None, None), list(args), kwargs)

    def eval_init(self, cls: ClassInfo, args, kwargs=None):
        """Evaluate __init__ symbolically; returns dict field -> term."""
        self_term = ("sym", "self")
        saved = self.self_fields
        self.self_fields = {}
        try:
            r = self.prog.find_method(cls, "__init__")
            if r is None:
                # dataclass style
                sig = repo_sig(self.prog, cls.qualname)
                out = {}
                for p, a in zip(sig[0], args):
                    out[p] = a
                out.update(kwargs or {})
                return out
            owner, fn = r
            ctx = (owner.module, cls, self_term)
            self.apply_def(fn, Env(), ctx, [self_term] + list(args), kwargs or {})
            return self.self_fields
        finally:
            self.self_fields = saved

    # ------------------------------------------------------------------ functions
    def bind_params(self, fn, env: Env, ctx, args, kwargs):
        a = fn.args
        pos = a.posonlyargs + a.args
        args = list(args)
        kwargs = dict(kwargs)
        # expand starred tuple args when possible
        flat = []
        for x in args:
            if isinstance(x, tuple) and x and x[0] == "star":
                if x[1][0] in ("tuple", "list"):
                    flat.extend(x[1][1])
                else:
                    flat.append(x)
            else:
                flat.append(x)
        args = flat
        stars = [i for i, x in enumerate(args) if isinstance(x, tuple) and x and x[0] == "star"]
        star_rest = None
        if stars == [len(args) - 1] and a.vararg and len(args) - 1 == len(pos):
            # f(p1, ..., pn, *rest) against def f(p1, ..., pn, *varargs): varargs is tuple(rest)
            star_rest = args[-1][1]
            args = args[:-1]
        if any(isinstance(x, tuple) and x and x[0] == "star" for x in args):
            # cannot bind precisely
            for p in pos + a.kwonlyargs:
                env.set(p.arg, ("unknown", f"star-args binding in {getattr(fn, 'name', 'lambda')}"))
            if a.vararg:
                env.set(a.vararg.arg, ("unknown", "star"))
            if a.kwarg:
                env.set(a.kwarg.arg, ("unknown", "dstar"))
            return
        ndef = len(a.defaults)
        for i, p in enumerate(pos):
            if i < len(args):
                env.set(p.arg, args[i])
            elif p.arg in kwargs:
                env.set(p.arg, kwargs.pop(p.arg))
            else:
                di = i - (len(pos) - ndef)
                if di >= 0:
                    env.set(p.arg, self.eval_default(a.defaults[di], ctx))
                else:
                    env.set(p.arg, ("unknown", f"missing argument {p.arg}"))
        extra = args[len(pos):]
        if a.vararg:
            env.set(a.vararg.arg, star_rest if star_rest is not None else ("tuple", tuple(extra)))
        for p, d in zip(a.kwonlyargs, a.kw_defaults):
            if p.arg in kwargs:
                env.set(p.arg, kwargs.pop(p.arg))
            elif d is not None:
                env.set(p.arg, self.eval_default(d, ctx))
            else:
                env.set(p.arg, ("unknown", f"missing kw argument {p.arg}"))
        if a.kwarg:
            env.set(a.kwarg.arg, ("dict", tuple(sorted((C(k), v) for k, v in kwargs.items()))))

    def eval_default(self, node, ctx):
        try:
            return self.eval(node, Env(), ctx)
        except AnalysisError:
            return ("unknown", "default")

    _TRANSPARENT_DECOS = ("property", "abstractmethod", "abc.abstractmethod", "staticmethod", "classmethod", "override",
                          "typing.override", "eqx.filter_jit", "jax.jit", "jit", "functools.cache", "cache",
                          "functools.cached_property", "cached_property")
    _TRANSPARENT_DECO_PREFIX = ("partial(jit", "functools.partial(jit", "partial(jax.jit", "functools.partial(jax.jit",
                                "wraps(", "functools.wraps(", "lru_cache", "functools.lru_cache")

    def _transforming_decorators(self, fn):
        out = []
        for dec in getattr(fn, "decorator_list", []):
            d = ast.unparse(dec).replace(" ", "")
            if d in self._TRANSPARENT_DECOS or d.startswith(self._TRANSPARENT_DECO_PREFIX) or d.endswith((".setter", ".getter")):
                continue
            out.append(dec)
        return out

    def apply_method(self, fn, ctx, args, kwargs):
        """Apply a method definition to [self, *args]; a decorator that is not a compilation / descriptor marker
        is applied to the function value first (it may change arguments or results)."""
        decs = self._transforming_decorators(fn)
        dnames = {ast.unparse(d) for d in getattr(fn, "decorator_list", [])}
        if "staticmethod" in dnames and args:
            args = list(args)[1:]  # called through an instance: no self is passed
        elif "classmethod" in dnames and args and ctx[1] is not None:
            args = [("ext", ctx[1].qualname)] + list(args)[1:]
        if not decs:
            return self.apply_def(fn, Env(), ctx, args, kwargs)
        plain = ast.FunctionDef(name=fn.name, args=fn.args, body=fn.body, decorator_list=[], returns=fn.returns,
                                type_comment=None, lineno=fn.lineno, col_offset=fn.col_offset)
        val = Closure(plain, Env(), ctx, fn.name)
        mctx = (ctx[0], None, None)
        for dec in reversed(decs):
            d = self.eval(dec, Env(), mctx)
            val = self.call(d, [val], {}, mctx)
        return self.call(val, list(args), kwargs, ctx)

    _GEN_CACHE: dict = {}

    @classmethod
    def _degenerate(cls, fn):
        """A generator function consumed eagerly is the list of what it yields: `yield v` -> `__gen.append(v)`,
        with `__gen = []` first and `return __gen` last (generators with `return value` / `yield from` are left)."""
        if not isinstance(fn, ast.FunctionDef):
            return fn
        k = id(fn)
        if k in cls._GEN_CACHE:
            return cls._GEN_CACHE[k]
        own = []
        stack = list(fn.body)
        while stack:
            n = stack.pop()
            if isinstance(n, (ast.FunctionDef, ast.Lambda, ast.ClassDef)):
                continue
            if isinstance(n, (ast.Yield, ast.YieldFrom)):
                own.append(n)
            stack.extend(ast.iter_child_nodes(n))
        own_returns = []
        stack = list(fn.body)
        while stack:
            n = stack.pop()
            if isinstance(n, (ast.FunctionDef, ast.Lambda, ast.ClassDef)):
                continue
            if isinstance(n, ast.Return):
                own_returns.append(n)
            stack.extend(ast.iter_child_nodes(n))
        if not own or any(n.value is not None for n in own_returns) or any(
                isinstance(n, ast.YieldFrom) and not isinstance(p_, ast.Expr)
                for p_ in ast.walk(fn) for n in ast.iter_child_nodes(p_) if isinstance(n, ast.YieldFrom)):
            cls._GEN_CACHE[k] = fn
            return fn
        import copy
        new = copy.deepcopy(fn)

        class Y(ast.NodeTransformer):
            def visit_FunctionDef(self, node):
                return node if node is not new else self.generic_visit(node)

            def visit_Lambda(self, node):
                return node

            def visit_Expr(self, node):
                if isinstance(node.value, ast.Yield):
                    v = node.value.value or ast.Constant(value=None)
                    return ast.copy_location(ast.Expr(value=ast.Call(
                        func=ast.Attribute(value=ast.Name(id="__gen", ctx=ast.Load()), attr="append", ctx=ast.Load()),
                        args=[v], keywords=[])), node)
                if isinstance(node.value, ast.YieldFrom):
                    # `yield from xs` hands on every item of xs: __gen.extend(xs)
                    return ast.copy_location(ast.Expr(value=ast.Call(
                        func=ast.Attribute(value=ast.Name(id="__gen", ctx=ast.Load()), attr="extend", ctx=ast.Load()),
                        args=[node.value.value], keywords=[])), node)
                return node

            def visit_Return(self, node):
                # a bare `return` ends the generator: what was yielded so far is the result
                return ast.copy_location(ast.Return(value=ast.Name(id="__gen", ctx=ast.Load())), node)
        new = Y().visit(new)
        new.body = [ast.Assign(targets=[ast.Name(id="__gen", ctx=ast.Store())], value=ast.List(elts=[], ctx=ast.Load()),
                               lineno=fn.lineno)] + new.body + [ast.Return(value=ast.Name(id="__gen", ctx=ast.Load()))]
        ast.fix_missing_locations(new)
        cls._GEN_CACHE[k] = new
        return new

    def apply_def(self, fn, closure_env: Env, ctx, args, kwargs):
        fn = self._degenerate(fn)
        if self.inline_depth > MAX_INLINE:
            return ("unknown", f"inline depth exceeded at {getattr(fn, 'name', 'lambda')}")
        env = Env(closure_env)
        self.bind_params(fn, env, ctx, args, kwargs)
        top = self.inline_depth == 0
        self.inline_depth += 1
        try:
            if isinstance(fn, ast.Lambda):
                return self.eval(fn.body, env, ctx)
            out = self.exec_block(fn.body, env, ctx)
        finally:
            self.inline_depth -= 1
            if top:
                self.last_env = env
        if out[0] == "ret":
            return out[1]
        if out[0] == "fall":
            return NONE
        if out[0] == "raise":
            return ("raises", out[1])
        return ("unknown", "outcome")

    def _closure_env(self, f):
        for be in reversed(getattr(self, "active_scopes", ())):
            e = be
            while e is not None and e is not f.env:
                e = e.parent
            if e is f.env and be is not f.env:
                return be
        return f.env

    def reify(self, v):
        """Closure / Partial -> lam term."""
        if isinstance(v, Closure):
            fn = v.node
            a = fn.args
            names = [p.arg for p in a.posonlyargs + a.args + a.kwonlyargs]
            d = self.depth
            env = Env(self._closure_env(v))
            if isinstance(fn, ast.Lambda) and a.defaults and not a.kwonlyargs and not a.vararg and not a.kwarg:
                # `lambda v, b=b: ...` - the early-binding idiom: as a term, the defaulted trailing parameters are
                # bound to their defaults (evaluated where the lambda was created) and the arity is what remains
                pos = a.posonlyargs + a.args
                nd = len(a.defaults)
                for p_, dflt in zip(pos[len(pos) - nd:], a.defaults):
                    env.set(p_.arg, self.as_term(self.ev_any(dflt, v.env, v.ctx)))
                names = [p_.arg for p_ in pos[:len(pos) - nd]]
            for i, n in enumerate(names):
                env.set(n, ("bv", d, i))
            if a.vararg:
                env.set(a.vararg.arg, ("varargs", ("bv", d, len(names))))
                names = names + ["*" + a.vararg.arg]
            if a.kwarg:
                env.set(a.kwarg.arg, ("varkw", ("bv", d, len(names))))
                names = names + ["**" + a.kwarg.arg]
            self.depth += 1
            self.inline_depth += 1
            try:
                if self.inline_depth > MAX_INLINE:
                    return ("unknown", "inline depth exceeded (reify)")
                if isinstance(fn, ast.Lambda):
                    body = self.eval(fn.body, env, v.ctx)
                else:
                    out = self.exec_block(fn.body, env, v.ctx)
                    body = out[1] if out[0] == "ret" else (NONE if out[0] == "fall" else ("raises", out[1]))
            finally:
                self.depth -= 1
                self.inline_depth -= 1
            return ("lam", len(names), body, d)
        if isinstance(v, BoundMethod):
            return ("attr", v.self_term, v.name)
        if isinstance(v, Partial):
            lam = self._partial_as_lambda(v)
            if lam is not None:
                return lam
            f = self.reify(v.fn)
            return ("call", ("ext", "functools.partial"), (f,) + tuple(self.reify(x) for x in v.args),
                    tuple(sorted((k, self.reify(x)) for k, x in v.kwargs.items())))
        if isinstance(v, tuple):
            return v
        return ("unknown", f"reify {type(v).__name__}")

    def _partial_as_lambda(self, v):
        """partial(f, *bound, **kw) of a package function / closure with a plain signature, as a value, is the lambda
        over f's remaining parameters (those without a default; defaulted ones take their default)."""
        fn = v.fn
        if isinstance(fn, tuple) and fn[0] == "ext" and fn[1].startswith("flowjax") and self.inline_repo:
            r = self.prog.lookup(fn[1])
            if not r or r[0] != "func" or fn[1] in self.no_inline or r[2].decorator_list:
                return None
            fn = Closure(r[2], Env(), (r[1], None, None), r[2].name)
        if not isinstance(fn, Closure) or isinstance(fn.node, ast.Lambda):
            return None
        a = fn.node.args
        if a.vararg or a.kwarg or a.posonlyargs:
            return None
        pos = [p_.arg for p_ in a.args]
        nd = len(a.defaults)
        has_default = set(pos[len(pos) - nd:]) | {p_.arg for p_, dflt in zip(a.kwonlyargs, a.kw_defaults) if dflt is not None}
        if len(v.args) > len(pos) or any(k not in pos + [p_.arg for p_ in a.kwonlyargs] for k in v.kwargs):
            return None
        bound = dict(zip(pos, v.args))
        bound.update(v.kwargs)
        remaining = [n for n in pos if n not in bound and n not in has_default]
        if any(p_.arg not in bound and p_.arg not in has_default for p_ in a.kwonlyargs):
            return None
        d = self.depth
        self.depth += 1
        try:
            kw = dict(bound)
            for i, n in enumerate(remaining):
                kw[n] = ("bv", d, i)
            body = self.as_term(self.apply_def(fn.node, fn.env, fn.ctx, [], kw))
        except AnalysisError:
            return None
        finally:
            self.depth -= 1
        return ("lam", len(remaining), body, d)

    # ------------------------------------------------------------------ statements
    def exec_block(self, stmts, env: Env, ctx):
        """Returns ('ret', term) | ('fall', env) | ('raise', term)."""
        for i, st in enumerate(stmts):
            if isinstance(st, ast.Return):
                return ("ret", self.ev(st.value, env, ctx) if st.value is not None else NONE)
            if isinstance(st, ast.Raise):
                return ("raise", self.ev(st.exc, env, ctx) if st.exc is not None else NONE)
            if isinstance(st, ast.Continue):
                return ("continue", env)
            if isinstance(st, ast.Match):
                return self.exec_block(_match_to_if(st, f"__match_{st.lineno}") + list(stmts[i + 1:]), env, ctx)
            if isinstance(st, ast.With):
                # the managed block is executed in place (a return / raise inside it leaves the function); the
                # context expressions are evaluated for their guards, what __enter__ returns is opaque
                for item in st.items:
                    cm = self.ev_any(item.context_expr, env, ctx)
                    if item.optional_vars is not None:
                        self.assign(item.optional_vars, ("call", ("attr", self.as_term(cm), "__enter__"), (), ()), env, ctx)
                return self.exec_block(list(st.body) + list(stmts[i + 1:]), env, ctx)
            if isinstance(st, ast.If):
                test = self.ev(st.test, env, ctx)
                if is_const(test):
                    branch = st.body if test[1] else st.orelse
                    out = self.exec_block(branch, env, ctx)
                    if out[0] != "fall":
                        return out
                    continue
                e1, e2 = env.copy(), env.copy()
                f0 = dict(self.self_fields) if self.self_fields is not None else None
                self.path.append(test)
                try:
                    o1 = self.exec_block(st.body, e1, ctx)
                finally:
                    self.path.pop()
                f1 = self.self_fields
                if f0 is not None:
                    self.self_fields = dict(f0)
                self.path.append(mk_not(test))
                try:
                    o2 = self.exec_block(st.orelse, e2, ctx)
                finally:
                    self.path.pop()
                if f0 is not None:
                    # fields assigned under the branches: merge like local variables
                    f2 = self.self_fields
                    merged = dict(f0)
                    live1, live2 = o1[0] != "raise", o2[0] != "raise"
                    for kf in list(dict.fromkeys(list(f1) + list(f2))):
                        v1, v2 = f1.get(kf, f0.get(kf)), f2.get(kf, f0.get(kf))
                        if not live1:
                            v1 = v2
                        if not live2:
                            v2 = v1
                        if v1 is None or v2 is None:
                            merged[kf] = v1 if v2 is None else v2
                        elif v1 is v2 or same(v1, v2):
                            merged[kf] = v1
                        else:
                            merged[kf] = mk_ite(test, v1, v2)
                    self.self_fields = merged
                rest = stmts[i + 1:]
                if o1[0] == "fall" and o2[0] == "fall":
                    self.merge_env(env, test, e1, e2)
                    continue
                if "continue" in (o1[0], o2[0]) and {o1[0], o2[0]} <= {"continue", "fall"}:
                    # `if c: continue` - the rest of the loop body runs only on the other branch; afterwards the
                    # iteration is over either way
                    if o1[0] == "continue" and o2[0] == "continue":
                        self.merge_env(env, test, e1, e2)
                        return ("continue", env)
                    live_env, cond = (e2, mk_not(test)) if o1[0] == "continue" else (e1, test)
                    self.path.append(cond)
                    try:
                        r = self.exec_block(rest, live_env, ctx)
                    finally:
                        self.path.pop()
                    if r[0] not in ("fall", "continue"):
                        return ("ret", ("unknown", "return / raise after a conditional continue"))
                    if o1[0] == "continue":
                        self.merge_env(env, test, e1, live_env)
                    else:
                        self.merge_env(env, test, live_env, e2)
                    return ("continue", env)
                if o1[0] == "fall":
                    # the other branch left (return / raise): what follows runs under `test`, exactly as if it were
                    # written inside the branch
                    env.vars = e1.vars
                    self.path.append(test)
                    try:
                        r = self.exec_block(rest, env, ctx)
                    finally:
                        self.path.pop()
                    return self.merge_outcome(test, r, o2, st)
                if o2[0] == "fall":
                    env.vars = e2.vars
                    self.path.append(mk_not(test))
                    try:
                        r = self.exec_block(rest, env, ctx)
                    finally:
                        self.path.pop()
                    return self.merge_outcome(test, o1, r, st)
                return self.merge_outcome(test, o1, o2, st)
            self.exec_stmt(st, env, ctx)
        return ("fall", env)

    def merge_env(self, env, test, e1, e2):
        names = list(dict.fromkeys(list(e1.vars) + list(e2.vars)))
        for n in names:
            v1 = e1.vars.get(n, env.get(n))
            v2 = e2.vars.get(n, env.get(n))
            if v1 is None or v2 is None:
                env.set(n, v1 if v2 is None else v2)  # defined on one path only
                continue
            if v1 is v2 or v1 == v2:
                env.set(n, v1)
            elif isinstance(v1, tuple) and isinstance(v2, tuple):
                env.set(n, mk_ite(test, v1, v2))
            elif not isinstance(v1, tuple) and not isinstance(v2, tuple):
                # two callables (closures, bound methods, partials) chosen by a test: a callable that, when called,
                # is the conditional of the two results
                env.set(n, CondCallable(test, v1, v2))
            else:
                env.set(n, ("unknown", f"merge of closures for {n}"))

    def merge_outcome(self, test, o1, o2, st):
        if o1[0] == "ret" and o2[0] == "ret":
            return ("ret", mk_ite(test, o1[1], o2[1]))
        if o1[0] == "raise" and o2[0] != "raise":
            self.guards.append(("raise-if", test, o1[1], getattr(st, "lineno", 0), tuple(self.path)))
            return o2
        if o2[0] == "raise" and o1[0] != "raise":
            self.guards.append(("raise-if", mk_not(test), o2[1], getattr(st, "lineno", 0), tuple(self.path)))
            return o1
        if o1[0] == "raise" and o2[0] == "raise":
            return o1
        # ret vs fall at end of function body
        if o1[0] == "ret" and o2[0] == "fall":
            return ("ret", mk_ite(test, o1[1], NONE))
        if o2[0] == "ret" and o1[0] == "fall":
            return ("ret", mk_ite(test, NONE, o2[1]))
        return ("ret", ("unknown", "outcome merge"))

    def exec_stmt(self, st, env, ctx):
        if isinstance(st, ast.Assign):
            v = self.ev_any(st.value, env, ctx)
            for t in st.targets:
                self.assign(t, v, env, ctx)
        elif isinstance(st, ast.AnnAssign):
            if st.value is not None:
                self.assign(st.target, self.ev_any(st.value, env, ctx), env, ctx)
        elif isinstance(st, ast.AugAssign):
            cur = self.ev(self.as_load(st.target), env, ctx)
            rhs = self.ev(st.value, env, ctx)
            self.assign(st.target, self.binop(st.op, cur, rhs), env, ctx)
        elif isinstance(st, ast.Expr):
            self.exec_expr_stmt(st.value, env, ctx)
        elif isinstance(st, (ast.FunctionDef,)):
            val = Closure(st, env, ctx, st.name)
            for dec in reversed(st.decorator_list):
                d = self.eval(dec, env, ctx)
                # functools.wraps(f) only copies metadata: transparent
                if isinstance(d, tuple) and d[0] == "call" and d[1] == ("ext", "functools.wraps"):
                    continue
                val = self.call(d, [val], {}, ctx)
            env.set(st.name, val)
        elif isinstance(st, ast.ClassDef):
            env.set(st.name, ("localclass", st.name))
        elif isinstance(st, ast.For):
            self.exec_for(st, env, ctx)
        elif isinstance(st, ast.With):
            out = self.exec_block(st.body, env, ctx)
            if out[0] != "fall":
                raise AnalysisError("return inside with-block is not modelled")
        elif isinstance(st, ast.Assert):
            self.guards.append(("assert", self.ev(st.test, env, ctx), None, st.lineno))
        elif isinstance(st, ast.ImportFrom):
            base = st.module or ""
            for a in st.names:
                env.set(a.asname or a.name, ("ext", self.prog.canonical(f"{base}.{a.name}")))
        elif isinstance(st, ast.Import):
            for a in st.names:
                env.set(a.asname or a.name.split(".")[0], ("ext", a.name if a.asname else a.name.split(".")[0]))
        elif isinstance(st, (ast.Pass, ast.Global, ast.Nonlocal)):
            pass
        elif isinstance(st, ast.While):
            for n in assigned_names(st.body):
                env.set(n, ("unknown", f"while-loop variable {n}"))
        elif isinstance(st, ast.Break):
            if not self.break_as_flag:
                raise _Break()
            env.set("__break__", TRUE)
        elif isinstance(st, ast.Continue):
            raise _Break()
        elif isinstance(st, ast.Try):
            for n in assigned_names(st.body):
                env.set(n, ("unknown", f"try-block variable {n}"))
        elif isinstance(st, ast.Delete):
            pass
        else:
            raise AnalysisError(f"unmodelled statement {type(st).__name__} at line {st.lineno}")

    @staticmethod
    def as_load(t):
        t2 = ast.parse(ast.unparse(t), mode="eval").body
        return t2

    def exec_expr_stmt(self, e, env, ctx):
        # list mutation: name.append(v) / name.extend(v)
        if isinstance(e, ast.Call) and isinstance(e.func, ast.Attribute) and e.func.attr in (
                "append", "extend") and isinstance(e.func.value, ast.Name) and len(e.args) == 1:
            name = e.func.value.id
            cur = env.get(name)
            v = self.ev(e.args[0], env, ctx)
            if isinstance(cur, tuple):
                if cur[0] == "list":
                    if e.func.attr == "append":
                        env.set(name, ("list", cur[1] + (v,)))
                    elif v[0] in ("tuple", "list") and not any(x[0] == "star" for x in v[1]):
                        env.set(name, ("list", cur[1] + tuple(v[1])))     # extending by a display appends its items
                    else:
                        env.set(name, ("list", cur[1] + (("star", v),)))
                else:
                    env.set(name, ("call", ("ext", f"list.{e.func.attr}"), (cur, v), ()))
                return
        # name.reverse()
        if isinstance(e, ast.Call) and isinstance(e.func, ast.Attribute) and e.func.attr == "reverse" and \
                isinstance(e.func.value, ast.Name) and not e.args and not e.keywords:
            name = e.func.value.id
            cur = env.get(name)
            if isinstance(cur, tuple):
                if cur[0] == "list" and not any(x[0] == "star" for x in cur[1]):
                    env.set(name, ("list", tuple(reversed(cur[1]))))
                else:
                    env.set(name, ("call", ("ext", "builtins.reversed"), (cur,), ()))
                return
        # name.insert(i, v)
        if isinstance(e, ast.Call) and isinstance(e.func, ast.Attribute) and e.func.attr == "insert" and \
                isinstance(e.func.value, ast.Name) and len(e.args) == 2 and not e.keywords:
            name = e.func.value.id
            cur = env.get(name)
            i0, v = self.ev(e.args[0], env, ctx), self.ev(e.args[1], env, ctx)
            if isinstance(cur, tuple):
                if cur[0] == "list" and i0 == C(0):
                    env.set(name, ("list", (v,) + cur[1]))
                elif cur[0] == "call" and cur[1] in (("ext", "builtins.list"),) and len(cur[2]) == 1 and not cur[3] or (
                        cur[0] in ("attr", "sub") and not (is_const(i0) and isinstance(i0[1], int) and i0[1] < 0)):
                    # inserting into a copy of a sequence at a (non-negative, already normalised) position:
                    # [*xs[:i], v, *xs[i:]]
                    base_ = cur[2][0] if cur[0] == "call" else cur
                    env.set(name, ("list", (("star", proj_sub(base_, ("slice", NONE, i0, NONE))), v,
                                            ("star", proj_sub(base_, ("slice", i0, NONE, NONE))))))
                else:
                    env.set(name, ("call", ("ext", "list.insert"), (cur, i0, v), ()))
                return
        if isinstance(e, ast.Call) and isinstance(e.func, ast.Attribute) and e.func.attr in ("append", "extend") \
                and isinstance(e.func.value, ast.Subscript) and isinstance(e.func.value.value, ast.Name) and len(e.args) == 1:
            name = e.func.value.value.id
            cur = env.get(name)
            k = self.ev(e.func.value.slice, env, ctx)
            v = self.ev(e.args[0], env, ctx)
            if isinstance(cur, tuple):
                if cur[0] == "dict" and is_const(k) and any(kk == k for kk, _ in cur[1]):
                    items = []
                    for kk, vv in cur[1]:
                        if kk == k:
                            if vv[0] == "list" and e.func.attr == "append":
                                vv = ("list", vv[1] + (v,))
                            else:
                                vv = ("call", ("ext", f"list.{e.func.attr}"), (vv, v), ())
                        items.append((kk, vv))
                    env.set(name, ("dict", tuple(items)))
                else:
                    env.set(name, ("call", ("ext", f"dict.list.{e.func.attr}"), (cur, k, v), ()))
                return
        v = self.ev_any(e, env, ctx)
        self.effects.append(v)
        self.cond_effects.append((tuple(self.path), v if isinstance(v, tuple) else self.reify(v)))

    def assign(self, target, v, env, ctx):
        if isinstance(target, ast.Name):
            env.set(target.id, v)
        elif isinstance(target, (ast.Tuple, ast.List)):
            if not isinstance(v, tuple):
                for t in target.elts:
                    self.assign(t, ("unknown", "destructuring a closure"), env, ctx)
                return
            n = len(target.elts)
            star_idx = [i for i, t in enumerate(target.elts) if isinstance(t, ast.Starred)]
            if v[0] == "map" and not star_idx:
                # (f(a) for a in (x, y)) destructured: map over literal tuple
                it = v[2]
                if it[0] in ("tuple", "list") and len(it[1]) == n:
                    for t, item in zip(target.elts, it[1]):
                        self.assign(t, self.beta(v[1], [item]), env, ctx)
                    return
            for i, t in enumerate(target.elts):
                if isinstance(t, ast.Starred):
                    self.assign(t.value, proj_sub(v, ("slice", C(i), C(i - n + 1 or None), NONE)), env, ctx)
                elif star_idx and i > star_idx[0]:
                    self.assign(t, proj(v, i - n), env, ctx)
                else:
                    self.assign(t, proj(v, i), env, ctx)
        elif isinstance(target, ast.Attribute):
            obj = self.ev(target.value, env, ctx)
            if self.self_fields is not None and obj == ctx[2]:
                self.self_fields[target.attr] = v if isinstance(v, tuple) else self.reify(v)
            else:
                self.effects.append(("setattr", obj, target.attr, v if isinstance(v, tuple) else self.reify(v)))
        elif isinstance(target, ast.Subscript):
            if isinstance(target.value, ast.Name):
                cur = env.get(target.value.id)
                idx = self.ev(target.slice, env, ctx)
                vv = v if isinstance(v, tuple) else self.reify(v)
                env.set(target.value.id, ("setitem", cur if isinstance(cur, tuple) else ("unknown", "x"), idx, vv))
            else:
                self.effects.append(("setitem", self.ev(target.value, env, ctx)))
        elif isinstance(target, ast.Starred):
            self.assign(target.value, v, env, ctx)
        else:
            raise AnalysisError(f"unmodelled assignment target {type(target).__name__}")

    _REDUCE_LOOP = ast.parse("for __x in __xs:\n    __acc = __f(__acc, __x)\n").body[0]
    _REDUCE_LOOP_NOINIT = ast.parse("__acc = __xs[0]\nfor __x in __xs[1:]:\n    __acc = __f(__acc, __x)\n").body

    def _suffix_recursion_as_fold(self, q, args, kwargs, res):
        """H(.., s) = BASE if len(s) == 0 else STEP(H(.., s[1:]), s[0])  - structural recursion on the suffixes of a
        sequence - is the right fold  `acc = BASE; for x in reversed(s): acc = STEP(acc, x)`.  `res` is H's body inlined
        once with the inner call left as a call to H; recognised only in exactly this shape."""
        if res[0] != "ite":
            return None
        r_ = self.prog.lookup(q)
        if not r_ or r_[0] != "func":
            return None
        pnames = [p_.arg for p_ in r_[2].args.posonlyargs + r_[2].args.args]
        outer = dict(zip(pnames, [self.as_term(a) for a in args]))
        outer.update({k: self.as_term(v) for k, v in kwargs.items()})
        inner = [t for t in walk(res) if t[0] == "call" and t[1] == ("ext", q)]
        if len({key(t) for t in inner}) != 1:
            return None
        ic = inner[0]
        inn = dict(zip(pnames, ic[2]))
        inn.update(dict(ic[3]))
        if set(inn) != set(outer):
            return None
        diff = [k for k in outer if outer[k] != inn[k]]
        if len(diff) != 1:
            return None
        S = outer[diff[0]]
        if inn[diff[0]] != proj_sub(S, ("slice", C(1), NONE, NONE)):
            return None
        c, a, b = res[1], res[2], res[3]
        empty = mk_cmp("==", ("call", ("ext", "builtins.len"), (S,), ()), C(0))
        if c == empty:
            base, step = a, b
        elif c == mk_not(empty) or c == S:
            base, step = b, a
        else:
            return None
        if any(t == ic for t in walk(base)) or any(t == S for t in walk(base)):
            return None
        d = self.depth
        acc, x = ("bv", d, 1), ("bv", d, 0)
        head = proj_sub(S, C(0))
        body = subst(step, lambda t: acc if t == ic else (x if t == head else None))
        if any(t == S for t in walk(body)):
            return None          # the step looks at the sequence other than through its head
        it = ("call", ("ext", "builtins.reversed"), (S,), ())
        return ("fold", it, ("lam", 2, ("tuple", (body,)), d), ("tuple", (self.eta(base),)))

    def _reduce_as_loop(self, args, ctx):
        f, xs = args[0], args[1]
        xs = xs if isinstance(xs, tuple) else self.reify(xs)
        if isinstance(f, tuple) and f[0] not in ("ext", "lam"):
            return None
        env = Env()
        env.set("__f", f)
        env.set("__xs", xs)
        n0 = len(self.guards)
        try:
            if len(args) == 3:
                init = args[2] if isinstance(args[2], tuple) else self.reify(args[2])
                if init[0] == "tuple" and 2 <= len(init[1]) <= 4 and not any(x[0] == "star" for x in init[1]):
                    # a tuple-valued accumulator is the loop that carries its components:
                    #   a0, a1 = init; for x in xs: a0, a1 = f((a0, a1), x)
                    n = len(init[1])
                    names = [f"__acc{i}" for i in range(n)]
                    loop = ast.parse(f"for __x in __xs:\n    {', '.join(names)} = __f(({', '.join(names)}), __x)\n").body[0]
                    for nm, v0 in zip(names, init[1]):
                        env.set(nm, v0)
                    try:
                        self.exec_for(loop, env, ctx)
                        return ("tuple", tuple(self.as_term(env.get(nm)) for nm in names))
                    except AnalysisError:
                        del self.guards[n0:]
                        env = Env()
                        env.set("__f", f)
                        env.set("__xs", xs)
                env.set("__acc", init)
                self.exec_for(self._REDUCE_LOOP, env, ctx)
            else:
                out = self.exec_block(list(self._REDUCE_LOOP_NOINIT), env, ctx)
                if out[0] != "fall":
                    return None
        except AnalysisError:
            del self.guards[n0:]
            return None
        return env.get("__acc")

    def exec_for(self, st: ast.For, env: Env, ctx):
        it = self.ev(st.iter, env, ctx)
        tnames = {n.id for n in ast.walk(st.target) if isinstance(n, ast.Name)}
        if any(isinstance(n, (ast.Lambda, ast.FunctionDef)) for b in st.body for n in ast.walk(b)):
            body2, cap = _late_bound_rewrite(st.body, tnames, escaping_only=True)
            if cap:
                # a closure stored by the loop body reads the loop variable when called (usually after the loop)
                st = ast.For(target=st.target, iter=st.iter, body=body2, orelse=st.orelse, lineno=st.lineno,
                             col_offset=st.col_offset)
                for t in cap:
                    if isinstance(st.target, ast.Name):
                        last = it[1][-1] if it[0] in ("tuple", "list") and it[1] and not any(
                            x[0] == "star" for x in it[1]) else proj_sub(it, C(-1))
                    else:
                        last = ("unknown", f"loop variable {t} captured by a stored closure (late binding)")
                    env.set("__late_" + t, last)
        # static unrolling over a literal tuple/list
        if it[0] in ("tuple", "list") and not any(x[0] == "star" for x in it[1]) and len(it[1]) <= 24:
            for item in it[1]:
                self.assign(st.target, item, env, ctx)
                out = self.exec_block(st.body, env, ctx)
                if out[0] not in ("fall", "continue"):
                    # conservative: a return/raise inside an unrolled loop
                    if out[0] == "raise":
                        continue
                    raise AnalysisError("return inside for-loop is not modelled")
            return
        assigned = assigned_names(st.body)
        carried = [n for n in assigned if env.has(n)]
        local_only = [n for n in assigned if not env.has(n)]
        d = self.depth
        body_env = Env(env)
        elem = ("bv", d, 0)
        while it[0] == "map" and it[1][0] == "lam" and it[1][1] == 1:
            # for y in (f(e) for e in xs): ...   ==   for e in xs: y = f(e); ...
            elem = self.beta(it[1], [elem])
            it = it[2]
        self.assign(st.target, elem, body_env, ctx)
        for i, n in enumerate(carried):
            body_env.set(n, ("bv", d, 1 + i))
        self.depth += 1
        n_guards = len(self.guards)
        if not hasattr(self, "active_scopes"):
            self.active_scopes = []
        self.active_scopes.append(body_env)
        try:
            try:
                out = self.exec_block(st.body, body_env, ctx)
            except _Break:
                out = ("break",)
        finally:
            self.depth -= 1
            self.active_scopes.pop()
        # a guard met inside the loop body raises iff it holds for SOME element: any(test(e) for e in it)
        for gi in range(n_guards, len(self.guards)):
            g = self.guards[gi]
            if g[0] == "raise-if" and isinstance(g[1], tuple) and free_bvs(g[1], d):
                if not [i2 for i2 in free_bvs(g[1], d) if i2 >= 1]:
                    anyt = ("call", ("ext", "builtins.any"), (("map", ("lam", 1, g[1], d), it),), ())
                    self.guards[gi] = (g[0], anyt) + tuple(g[2:])
                else:
                    # the test reads the loop-carried state: when it fires is a property of the whole fold, which
                    # the guard comparison cannot relate to a closed-form predicate
                    self.guards[gi] = ("raise-in-callback",) + tuple(g[1:])
        if out[0] not in ("fall", "continue"):
            why = f"{out[0]} inside for-loop"
            if out[0] == "raise":
                # a loop whose body always raises?  treat as guard loop
                self.guards.append(("raise-in-loop", it, out[1], st.lineno))
                return
            for n in assigned:
                env.set(n, ("unknown", why))
            return
        new_vals = []
        for n in carried:
            v = body_env.get(n)
            new_vals.append(v if isinstance(v, tuple) else ("unknown", f"closure carried {n}"))
        init_vals = [self.as_term(env.get(n)) for n in carried]  # snapshot before any rebinding
        # linear induction variables of a counted loop: c = c0; for i in range(n): ...; c = c + K  (K loop-invariant)
        # has the closed form c == c0 + i*K inside iteration i and c0 + n*K after the loop
        closed_final = {}
        if it[0] == "call" and it[1] == ("ext", "builtins.range") and len(it[2]) == 1 and not it[3] and elem == ("bv", d, 0):
            for j, n in enumerate(carried):
                v, cb = new_vals[j], ("bv", d, 1 + j)
                if v[0] == "add" and cb in v[1]:
                    rest = tuple(x for x in v[1] if x != cb)
                    if len(rest) == len(v[1]) - 1 and not any(free_bvs(x, d) for x in rest) and not free_bvs(init_vals[j], d):
                        k_ = rest[0] if len(rest) == 1 else ("add", rest)
                        closed = mk_add((init_vals[j], mk_mul((elem, k_))))
                        closed_final[j] = mk_add((init_vals[j], mk_mul((it[2][0], k_))))
                        for j2 in range(len(new_vals)):
                            if j2 != j:
                                new_vals[j2] = subst_free(new_vals[j2], d, lambda t, cb=cb, closed=closed: closed if t == cb else None)
        # dependency graph among carried variables
        deps = []
        for v in new_vals:
            deps.append([i2 - 1 for i2 in free_bvs(v, d) if i2 >= 1])
        for i, n in enumerate(carried):
            if i in closed_final:
                env.set(n, closed_final[i])
                continue
            order = [i]
            j = 0
            while j < len(order):
                for dd in deps[order[j]]:
                    if dd not in order:
                        order.append(dd)
                j += 1
            ren = {1 + old: 1 + new for new, old in enumerate(order)}

            def rn(t, ren=ren, d=d):
                if t[0] == "bv" and t[1] == d and t[2] in ren:
                    return ("bv", d, ren[t[2]])
                return None
            bodies = tuple(subst_free(new_vals[j], d, rn) for j in order)
            lam = ("lam", 1 + len(order), ("tuple", bodies), d)
            inits = tuple(init_vals[j] for j in order)
            simple = self._fold_as_map(it, bodies, inits, order, d)
            env.set(n, simple if simple is not None else ("fold", it, lam, ("tuple", inits)))
        for n in local_only:
            env.set(n, ("unknown", f"loop-local {n} used after loop"))

    @staticmethod
    def _fold_as_map(it, bodies, inits, order, d):
        """acc = []; for e in it: acc.append(f(e))            ==  [f(e) for e in it]
           acc = []; for e in it: if c(e): acc.append(f(e))   ==  [f(e) for e in it if c(e)]"""
        acc = ("bv", d, 1)
        if len(order) == 1 and inits == (C(0),) and bodies[0][0] == "add" and acc in bodies[0][1]:
            # total = 0; for e in it: total += g(e)      ==  sum(g(e) for e in it)
            rest = tuple(x for x in bodies[0][1] if x != acc)
            if len(rest) == len(bodies[0][1]) - 1 and not any(1 in free_bvs(x, d) for x in rest):
                g_ = rest[0] if len(rest) == 1 else ("add", rest)
                return ("call", ("ext", "builtins.sum"), (("map", ("lam", 1, g_, d), it),), ())
        if len(order) == 2 and inits == (("list", ()), C(0)):
            # acc = []; c = 0; for e in it: acc.append(c [+ g(e)]); c += g(e)   - prefix sums of g over it:
            #   appended before the update: exclusive ([0, g0, g0+g1, ...]);  after it: itertools.accumulate
            c_ = ("bv", d, 2)
            b0, b1 = bodies
            if b1[0] == "add" and c_ in b1[1]:
                rest = tuple(x for x in b1[1] if x != c_)
                if len(rest) == len(b1[1]) - 1 and not any(set(free_bvs(x, d)) & {1, 2} for x in rest):
                    g_ = rest[0] if len(rest) == 1 else ("add", rest)
                    seq_ = ("map", ("lam", 1, g_, d), it)
                    if b0 == ("call", ("ext", "list.append"), (acc, c_), ()):
                        return ("excl_scan", seq_)
                    if b0 == ("call", ("ext", "list.append"), (acc, b1), ()):
                        return ("call", ("ext", "itertools.accumulate"), (seq_,), ())
        if len(order) != 1 or inits != (("list", ()),):
            return None
        b = bodies[0]

        def app(x):
            if x[0] == "call" and x[1] == ("ext", "list.append") and len(x[2]) == 2 and x[2][0] == acc \
                    and 1 not in free_bvs(x[2][1], d):
                return x[2][1]
            return None
        v = app(b)
        if v is not None:
            return ("map", ("lam", 1, v, d), it)
        if b[0] == "ite" and 1 not in free_bvs(b[1], d):
            v1, v2 = app(b[2]), app(b[3])
            if v1 is not None and b[3] == acc:
                return ("map", ("lam", 1, v1, d), ("filter", ("lam", 1, b[1], d), it))
            if v2 is not None and b[2] == acc:
                return ("map", ("lam", 1, v2, d), ("filter", ("lam", 1, mk_not(b[1]), d), it))
        return None

    def as_term(self, v):
        if isinstance(v, tuple):
            return self.eta(v)
        return self.reify(v)

    def eta(self, t):
        """A reference to a (small, undecorated) repository function used as a value is replaced by its
        lam reification, so that `is_leaf=_is_wrapper` and `is_leaf=lambda x: isinstance(x, Wrapper)` agree."""
        if t and t[0] == "ext" and t[1].startswith("flowjax.") and self.inline_repo and t[1] not in self.no_inline \
                and self.stack.count(t[1]) == 0 and self.inline_depth < MAX_INLINE:
            r = self.prog.lookup(t[1])
            if r and r[0] == "func" and not r[2].decorator_list and len(r[2].body) <= 6 \
                    and not r[2].args.vararg and not r[2].args.kwarg:
                self.stack.append(t[1])
                try:
                    lam = self.reify(Closure(r[2], Env(), (r[1], None, None), r[2].name))
                finally:
                    self.stack.pop()
                if not has_unknown(lam):
                    return lam
        return t

    # ----------------------------------------------------------------- expressions
    def ev(self, node, env, ctx):
        v = self.eval(node, env, ctx)
        if not isinstance(v, tuple):
            return self.reify(v)
        return v

    def ev_any(self, node, env, ctx):
        return self.eval(node, env, ctx)

    def lookup_name(self, name, env, ctx):
        v = env.get(name)
        if v is not None:
            return v
        m: Module = ctx[0]
        if name in m.assigns and name not in m.functions and name not in m.classes:
            # a module-level constant that is a literal (tuple / list of constants, number, string)
            try:
                val = ast.literal_eval(m.assigns[name])
            except Exception:
                val = None
            if isinstance(val, (tuple, list)) and all(isinstance(x, (str, int, float, bool, type(None))) for x in val):
                return ("tuple" if isinstance(val, tuple) else "list", tuple(C(x) for x in val))
            if isinstance(val, (str, int, float, bool)) and isinstance(m.assigns[name], (ast.Constant, ast.UnaryOp)):
                # a named module-level number / string (magic number moved to a constant)
                return C(val)
            # a module-level alias of a callable:  _f = partial(g, k=v)  /  _f = mod.g  /  _f = g
            node = m.assigns[name]
            key_ = (m.name, name)
            is_table = isinstance(node, (ast.Dict, ast.Tuple, ast.List)) and name.startswith("_") and all(
                isinstance(x, (ast.Constant, ast.Name, ast.Attribute, ast.Tuple, ast.List, ast.UnaryOp, ast.Dict, ast.Load,
                               ast.USub, ast.expr_context))
                for x in ast.walk(node))
            # an immutable value built from literals:  _EXCLUDED = frozenset([1])
            is_frozen = isinstance(node, ast.Call) and isinstance(node.func, ast.Name) and node.func.id in (
                "frozenset", "tuple") and node.func.id not in m.functions and not node.keywords and all(
                isinstance(x, (ast.Constant, ast.Tuple, ast.List, ast.Set, ast.Load, ast.UnaryOp, ast.USub, ast.expr_context))
                for a_ in node.args for x in ast.walk(a_))
            if is_table or is_frozen or isinstance(node, (ast.Name, ast.Attribute)) or (
                    isinstance(node, ast.Call) and ast.unparse(node.func) in ("partial", "functools.partial")):
                if key_ not in self._alias_stack:
                    self._alias_stack.append(key_)
                    try:
                        v = self.eval(node, Env(), (m, None, None))
                    finally:
                        self._alias_stack.pop()
                    if not (isinstance(v, tuple) and v[0] == "unknown"):
                        return v
        if name in m.functions or name in m.classes or name in m.assigns or name in m.aliases:
            return ("ext", self.prog.resolve(m, name))
        return ("ext", f"builtins.{name}")

    def eval(self, node, env, ctx):
        if isinstance(node, ast.Constant):
            return C(node.value)
        if isinstance(node, ast.Name):
            return self.lookup_name(node.id, env, ctx)
        if isinstance(node, ast.Attribute):
            obj = self.ev(node.value, env, ctx)
            return self.attr(obj, node.attr, ctx)  # may be a BoundMethod
        if isinstance(node, ast.Call):
            return self.eval_call(node, env, ctx)
        if isinstance(node, ast.BinOp):
            return self.binop(node.op, self.ev(node.left, env, ctx), self.ev(node.right, env, ctx))
        if isinstance(node, ast.UnaryOp):
            v = self.ev(node.operand, env, ctx)
            if isinstance(node.op, ast.USub):
                return mk_neg(v)
            if isinstance(node.op, ast.UAdd):
                return v
            if isinstance(node.op, ast.Not):
                return mk_not(v)
            if isinstance(node.op, ast.Invert):
                return ("call", ("ext", "jax.numpy.logical_not"), (), (("a", v),))
        if isinstance(node, ast.BoolOp):
            vals = [self.ev(v, env, ctx) for v in node.values]
            tag = "and" if isinstance(node.op, ast.And) else "or"
            out = []
            for i, v in enumerate(vals):
                last = i == len(vals) - 1
                if is_const(v) and not last:
                    # `c and x` / `c or x` with a constant, non-final operand
                    if tag == "and" and not v[1]:
                        return v if not out else (tag, tuple(out) + (v,))
                    if tag == "or" and v[1]:
                        return v if not out else (tag, tuple(out) + (v,))
                    continue
                out.append(v)
            if len(out) == 1:
                return out[0]
            return (tag, tuple(out))
        if isinstance(node, ast.Compare):
            left = self.ev(node.left, env, ctx)
            parts = []
            for op, comp in zip(node.ops, node.comparators):
                right = self.ev(comp, env, ctx)
                parts.append(mk_cmp(CMP[type(op)], left, right))
                left = right
            if len(parts) == 1:
                return parts[0]
            return ("and", tuple(parts))
        if isinstance(node, ast.IfExp):
            t = self.ev(node.test, env, ctx)
            if is_const(t):
                return self.eval(node.body if t[1] else node.orelse, env, ctx)
            return mk_ite(t, self.ev(node.body, env, ctx), self.ev(node.orelse, env, ctx))
        if isinstance(node, (ast.Tuple, ast.List)):
            items = []
            for e in node.elts:
                if isinstance(e, ast.Starred):
                    v = self.ev(e.value, env, ctx)
                    if v[0] in ("tuple", "list"):
                        items.extend(v[1])
                    else:
                        items.append(("star", v))
                else:
                    items.append(self.ev(e, env, ctx))
            return mk_display("tuple" if isinstance(node, ast.Tuple) else "list", tuple(items))
        if isinstance(node, ast.Dict):
            items = []
            for k, v in zip(node.keys, node.values):
                if k is None:
                    items.append((("dstar",), self.ev(v, env, ctx)))
                else:
                    items.append((self.ev(k, env, ctx), self.ev(v, env, ctx)))
            return ("dict", tuple(items))
        if isinstance(node, ast.Set):
            return ("set", tuple(sorted((self.ev(e, env, ctx) for e in node.elts), key=key)))
        if isinstance(node, ast.Subscript):
            obj = self.ev(node.value, env, ctx)
            idx = self.ev(node.slice, env, ctx)
            return proj_sub(obj, idx)
        if isinstance(node, ast.Slice):
            return ("slice",
                    self.ev(node.lower, env, ctx) if node.lower else NONE,
                    self.ev(node.upper, env, ctx) if node.upper else NONE,
                    self.ev(node.step, env, ctx) if node.step else NONE)
        if isinstance(node, ast.Lambda):
            return Closure(node, env, ctx)
        if isinstance(node, (ast.ListComp, ast.GeneratorExp, ast.SetComp)):
            return self.comprehension(node, node.elt, env, ctx)
        if isinstance(node, ast.DictComp):
            pair = ast.Tuple(elts=[node.key, node.value], ctx=ast.Load())
            return ("call", ("ext", "builtins.dict"), (self.comprehension(node, pair, env, ctx),), ())
        if isinstance(node, ast.JoinedStr):
            return ("fstr", tuple(self.ev(v.value, env, ctx) for v in node.values
                                   if isinstance(v, ast.FormattedValue)))
        if isinstance(node, ast.Starred):
            return ("star", self.ev(node.value, env, ctx))
        if isinstance(node, (ast.Yield, ast.YieldFrom)):
            v = self.ev(node.value, env, ctx) if node.value is not None else NONE
            self.effects.append(("yield", v))
            return NONE
        if isinstance(node, ast.NamedExpr):
            v = self.ev_any(node.value, env, ctx)
            self.assign(node.target, v, env, ctx)
            return v
        raise AnalysisError(f"unmodelled expression {type(node).__name__} at line {getattr(node, 'lineno', 0)}")

    def comprehension(self, node, elt, env, ctx):
        gens = node.generators

        def build(gi, env):
            g = gens[gi]
            it = self.ev(g.iter, env, ctx)
            if it[0] in ("tuple", "list") and not any(x[0] == "star" for x in it[1]) and not g.ifs and len(it[1]) <= 24:
                # over a literal sequence the comprehension is its elements, each evaluated with the target bound to
                # the actual item (so that calls inside see literal arguments: f(x, *pair, flag=i == n))
                tn_ = {n.id for n in ast.walk(g.target) if isinstance(n, ast.Name)}
                needs_late = gi + 1 == len(gens) and _late_bound_rewrite([elt], tn_)[1]
                if not needs_late:
                    out_, ok_ = [], True
                    n0_ = len(self.guards)
                    try:
                        for x in it[1]:
                            e3 = Env(env)
                            self.assign(g.target, x, e3, ctx)
                            if gi + 1 < len(gens):
                                sub_ = build(gi + 1, e3)
                                if sub_[0] != "list":
                                    ok_ = False
                                    break
                                out_.extend(sub_[1])
                            else:
                                out_.append(self.ev(elt, e3, ctx))
                    except AnalysisError:
                        ok_ = False
                    if ok_:
                        return ("list", tuple(out_))
                    del self.guards[n0_:]
            d = self.depth
            e2 = Env(env)
            self.assign(g.target, ("bv", d, 0), e2, ctx)
            elt_here = elt
            if gi + 1 == len(gens):
                tnames = {n.id for n in ast.walk(g.target) if isinstance(n, ast.Name)}
                (elt2,), cap = _late_bound_rewrite([elt], tnames)
                if cap:
                    # closures built by the comprehension read the iteration variable when CALLED: its last value
                    elt_here = elt2
                    for t in cap:
                        if isinstance(g.target, ast.Name) and not g.ifs and len(gens) == 1 and isinstance(
                                node, (ast.ListComp, ast.SetComp)):
                            last = it[1][-1] if it[0] in ("tuple", "list") and it[1] and not any(
                                x[0] == "star" for x in it[1]) else proj_sub(it, C(-1))
                        else:
                            last = ("unknown", f"comprehension variable {t} captured by a closure (late binding)")
                        e2.set("__late_" + t, last)
            self.depth += 1
            try:
                conds = [self.ev(c, e2, ctx) for c in g.ifs]
                if gi + 1 < len(gens):
                    body = build(gi + 1, e2)
                else:
                    body = self.ev(elt_here, e2, ctx)
            finally:
                self.depth -= 1
            src = it
            if conds:
                cond = conds[0] if len(conds) == 1 else ("and", tuple(conds))
                src = ("filter", ("lam", 1, cond, d), it)
            lam = ("lam", 1, body, d)
            if not conds and it[0] in ("tuple", "list") and not any(x[0] == "star" for x in it[1]):
                # comprehension over a literal sequence: expand elementwise
                return ("list", tuple(self.beta(lam, [x]) for x in it[1]))
            return ("map", lam, src)

        return build(0, env)

    def beta(self, lam, args):
        """Apply a lam term to argument terms (substitute its bound variables)."""
        if lam[0] != "lam":
            return ("call", lam, tuple(args), ())
        # find the level of this lam's parameters: they are the bvs with the minimal level
        if len(lam) > 3:
            lvl = lam[3]
        else:
            levels = [s[1] for s in walk(lam[2]) if s[0] == "bv"]
            if not levels:
                return lam[2]
            lvl = min(levels)

        # two phases, so that a bound variable occurring INSIDE an argument (an enclosing binder of the same level, met
        # when a lambda reified early is applied inside a later binder) is never mistaken for one of this lambda's own
        # parameters after a projection has been simplified: parameters -> unique markers -> arguments
        Interp._beta_uid = getattr(Interp, "_beta_uid", 0) + 1
        uid = Interp._beta_uid
        marks = {i: ("sym", f"$beta{uid}_{i}") for i in range(len(args))}

        def to_mark(t):
            if t[0] == "bv" and t[1] == lvl and t[2] < len(args):
                return marks[t[2]]
            return None
        body = subst_free(lam[2], lvl, to_mark)
        back = {v: args[i] for i, v in marks.items()}

        def to_arg(t):
            if t[0] == "sym":
                return back.get(t)
            return None
        return subst_free(body, lvl, to_arg)

    def attr(self, obj, name, ctx):
        v = nt_field(obj, name)
        if v is not None:
            return v
        if name in ("shape", "cond_shape") and obj[0] == "call" and obj[1][0] == "ext" and obj[1][1].startswith("flowjax.") \
                and obj[1][1] not in NT_CLASSES and self.inline_repo and self.inline_depth < MAX_INLINE:
            # the declared shape of a freshly constructed library object: what its constructor stores
            r_ = self.prog.lookup(obj[1][1])
            qn_ = f"{obj[1][1]}.__init__#field"
            if r_ and r_[0] == "class" and self.stack.count(qn_) == 0:
                self.stack.append(qn_)
                try:
                    sub_ = Interp(self.prog, no_inline=self.no_inline)
                    flds_ = sub_.eval_init(r_[1], list(obj[2]), dict(obj[3]))
                    v_ = flds_.get(name)
                    if v_ is not None:
                        v_ = sub_.as_term(v_)
                        if not has_unknown(v_):
                            return v_
                except AnalysisError:
                    pass
                finally:
                    self.stack.pop()
        if obj[0] == "call" and obj[1][0] == "ext" and obj[1][1] in NT_CLASSES:
            # a property / method of a repository NamedTuple, read off a constructor call: evaluated with self = the record
            r_ = self.prog.lookup(obj[1][1])
            if r_ and r_[0] == "class":
                ci_ = r_[1]
                fn_ = ci_.methods.get(name)
                qn_ = f"{ci_.qualname}.{name}"
                if fn_ is not None and self.stack.count(qn_) == 0 and self.inline_depth < MAX_INLINE:
                    if name in ci_.properties:
                        self.stack.append(qn_)
                        try:
                            return self.as_term(self.apply_def(fn_, Env(), (ci_.module, ci_, obj), [obj], {}))
                        finally:
                            self.stack.pop()
                    return BoundMethod(ci_, fn_, ci_, obj, name)
        if name == "shape" and obj[0] == "call" and obj[1] == ("ext", "jax.numpy.broadcast_to") and dict(obj[3]).get("shape"):
            return dict(obj[3])["shape"]
        if obj[0] == "record":
            for k, fv in obj[1]:
                if k == name:
                    return fv
            return ("unknown", f"attribute {name} of a callable instance is not set by its constructor")
        if obj[0] == "ext" and obj[1].startswith("flowjax") and self.inline_repo:
            r_ = self.prog.lookup(obj[1])
            if r_ and r_[0] == "class" and name in r_[1].methods and name.startswith(("_", "from_")) or (
                    r_ and r_[0] == "class" and obj[1] in NT_CLASSES and name in r_[1].methods):
                fn_ = r_[1].methods[name]
                decs_ = {ast.unparse(d_) for d_ in fn_.decorator_list}
                if "classmethod" in decs_:
                    return BoundMethod(r_[1], fn_, r_[1], obj, name)
                if "staticmethod" in decs_:
                    return Closure(fn_, Env(), (r_[1].module, None, None), name)
        if obj[0] == "ext":
            return ("ext", self.prog.canonical(f"{obj[1]}.{name}"))
        if obj[0] == "const" and isinstance(obj[1], str):
            return ("attr", obj, name)
        # self.<classvar constant>
        if self.fold_classvars and ctx[1] is not None and obj == ctx[2]:
            r = self.prog.find_field(ctx[1], name)
            if r and r[1].classvar and isinstance(r[1].default, ast.Constant):
                return C(r[1].default.value)
            if r and r[1].classvar and isinstance(r[1].default, ast.Tuple) and not r[1].default.elts:
                return ("tuple", ())
        if self.self_fields is not None and ctx[2] is not None and obj == ctx[2] and name in self.self_fields:
            return self.self_fields[name]
        if ctx[1] is not None and obj == ctx[2]:
            r = self.prog.find_method(ctx[1], name)
            if r and name not in r[0].properties:
                return BoundMethod(r[0], r[1], ctx[1], ctx[2], name)
            # a private property the unchanged tree did not have (anchors.json) is a refactoring's helper: evaluated
            # through its body, like a helper method; recorded / public properties stay symbolic unless asked for
            if r and name in r[0].properties and (self.inline_properties or (
                    name.startswith("_") and self.prog.recorded_signatures and
                    f"{r[0].qualname}.{name}" not in self.prog.recorded_signatures)):
                qn = f"{ctx[1].qualname}.{name}"
                if self.stack.count(qn) == 0 and self.inline_depth < MAX_INLINE:
                    self.stack.append(qn)
                    try:
                        return self.as_term(self.apply_def(r[1], Env(), (r[0].module, ctx[1], ctx[2]), [obj], {}))
                    finally:
                        self.stack.pop()
        if self.inline_properties and name == "ndim" and obj[0] in ("attr", "sym", "bv"):
            # x.ndim is len(x.shape) for arrays and for every distribution / bijection of the library
            return ("call", ("ext", "builtins.len"), (("attr", obj, "shape"),), ())
        if obj[0] == "call" and obj[1] == ("ext", "equinox.nn.MLP"):
            kw = dict(obj[3])
            d = kw.get("depth")
            if name == "depth" and d is not None:
                return d
            if name == "layers" and d is not None and is_const(d) and isinstance(d[1], int):
                # documented: an MLP has depth + 1 linear layers
                return ("tuple", tuple(("mlp_layer", obj, C(i)) for i in range(d[1] + 1)))
        if name == "__name__" and obj[0] == "attr":
            return C(obj[2])
        if name == "T" and obj[0] != "sym":
            return ("call", ("ext", "jax.numpy.transpose"), (), (("a", obj),))
        return ("attr", obj, name)

    def binop(self, op, a, b):
        if isinstance(op, ast.Add):
            if a[0] in ("tuple", "list") and b[0] == a[0]:
                return (a[0], a[1] + b[1])
            if is_seq_term(a) or is_seq_term(b):
                # `+` on shapes / tuples / lists is concatenation: order matters.  A display on one side is spelled
                # as the display with the other side starred: [a] + xs == [a, *xs]
                if a[0] in ("tuple", "list") and b[0] not in ("tuple", "list"):
                    return mk_display(a[0], a[1] + (("star", b),))
                if b[0] in ("tuple", "list") and a[0] not in ("tuple", "list"):
                    return mk_display(b[0], (("star", a),) + b[1])
                return ("concat", a, b)
            if is_const(a) and isinstance(a[1], str) or is_const(b) and isinstance(b[1], str):
                return ("concat", a, b)
            return mk_add((a, b))
        if isinstance(op, ast.Sub):
            return mk_add((a, mk_neg(b)))
        if isinstance(op, ast.Mult):
            if a[0] in ("tuple", "list") or b[0] in ("tuple", "list"):
                seq, k = (a, b) if a[0] in ("tuple", "list") else (b, a)
                if is_const(k) and isinstance(k[1], int) and not any(x[0] == "star" for x in seq[1]):
                    return (seq[0], seq[1] * max(k[1], 0))
                return ("repeat", a, b)
            return mk_mul((a, b))
        if isinstance(op, ast.Div):
            return mk_div(a, b)
        if isinstance(op, ast.Pow):
            return mk_pow(a, b)
        if isinstance(op, ast.MatMult):
            return ("matmul", a, b)
        if isinstance(op, ast.FloorDiv):
            na, nb = _num(a), _num(b)
            if isinstance(na, int) and isinstance(nb, int) and nb != 0:
                return C(na // nb)
            return ("binop", "//", a, b)
        if isinstance(op, ast.Mod):
            return ("binop", "%", a, b)
        if isinstance(op, ast.BitAnd):
            return ("call", ("ext", "jax.numpy.logical_and"), (), (("x1", a), ("x2", b)))
        if isinstance(op, ast.BitOr):
            return ("binop", "|", a, b)
        return ("binop", type(op).__name__, a, b)

    # ------------------------------------------------------------------------ calls
    def eval_call(self, node: ast.Call, env, ctx):
        f = self.eval(node.func, env, ctx)
        args = []
        for a in node.args:
            if isinstance(a, ast.Starred):
                v = self.ev(a.value, env, ctx)
                if v[0] in ("tuple", "list") and not any(x[0] == "star" for x in v[1]):
                    args.extend(v[1])
                else:
                    args.append(("star", v))
            else:
                args.append(self.eval(a, env, ctx))
        kwargs = {}
        for k in node.keywords:
            if k.arg is None:
                v = self.ev(k.value, env, ctx)
                if v[0] == "dict" and all(is_const(kk) for kk, _ in v[1]):
                    for kk, vv in v[1]:
                        kwargs[kk[1]] = vv
                else:
                    kwargs[f"**{len(kwargs)}"] = v
            else:
                kwargs[k.arg] = self.eval(k.value, env, ctx)
        return self.call(f, args, kwargs, ctx, node)

    def call(self, f, args, kwargs, ctx, node=None):
        if isinstance(f, CondCallable):
            ra = self.as_term(self.call(f.a, list(args), dict(kwargs), ctx, node))
            rb = self.as_term(self.call(f.b, list(args), dict(kwargs), ctx, node))
            return mk_ite(f.test, ra, rb)
        if isinstance(f, tuple) and f and f[0] == "call" and f[1] == ("ext", "functools.partial") and f[2]:
            kw = dict(f[3])
            kw.update(kwargs)
            return self.call(f[2][0], list(f[2][1:]) + list(args), kw, ctx, node)
        if isinstance(f, Partial):
            kw = dict(f.kwargs)
            kw.update(kwargs)
            return self.call(f.fn, list(f.args) + list(args), kw, ctx, node)
        opaque_args = any(isinstance(a, tuple) and a and a[0] == "star" for a in args) or any(
            k.startswith("**") for k in kwargs)
        if opaque_args and isinstance(f, Closure) and not any(k.startswith("**") for k in kwargs):
            a_ = f.node.args
            npos_ = len(a_.posonlyargs + a_.args)
            st_ = [i for i, x in enumerate(args) if isinstance(x, tuple) and x and x[0] == "star"]
            if a_.vararg and st_ == [len(args) - 1] and len(args) - 1 == npos_:
                return self.apply_def(f.node, self._closure_env(f), f.ctx, args, kwargs)
        if opaque_args and not isinstance(f, tuple):
            f = self.reify(f)
        if opaque_args and isinstance(f, tuple) and f[0] == "attr" and f[2] == "reshape" and not kwargs and \
                f[1][0] != "ext":
            # x.reshape(a, b, *rest) is jnp.reshape(x, (a, b, *rest))
            shape = ("tuple", tuple(self.as_term(a) for a in args))
            return norm_call(("ext", "jax.numpy.reshape"), [f[1], shape], {}, self.prog)
        if opaque_args and isinstance(f, tuple):
            targs = [self.as_term(a) for a in args]
            tkw = {k: self.as_term(v) for k, v in kwargs.items()}
            return norm_call(f, targs, tkw, self.prog)
        if isinstance(f, Closure):
            # Python functions have ONE scope: a closure defined before a loop reads, when called inside the loop body,
            # the loop's current bindings (the body is evaluated in a child environment of the defining one)
            return self.apply_def(f.node, self._closure_env(f), f.ctx, args, kwargs)
        if isinstance(f, BoundMethod):
            qn = f"{f.cls.qualname}.{f.name}"
            if self.inline_repo and qn not in self.no_inline and self.stack.count(qn) == 0 \
                    and f.name not in f.owner.abstract:
                self.stack.append(qn)
                try:
                    return self.apply_method(f.fn, (f.owner.module, f.cls, f.self_term),
                                             [f.self_term] + list(args), kwargs)
                finally:
                    self.stack.pop()
            f = self.reify(f)
        if isinstance(f, Partial):
            kw = dict(f.kwargs)
            kw.update(kwargs)
            return self.call(f.fn, list(f.args) + list(args), kw, ctx, node)
        if f[0] == "lam" and not kwargs and not opaque_args and f[1] == len(args) and \
                all(isinstance(a, tuple) for a in args):
            return self.beta(f, list(args))
        if f[0] == "ext":
            q = f[1]
            if q == "functools.reduce" and len(args) in (2, 3) and not kwargs and not opaque_args:
                # reduce(f, xs[, init]) is the loop  acc = init; for x in xs: acc = f(acc, x)  - run it through the
                # ordinary for-loop model (unrolls over literal sequences, folds over symbolic ones)
                r = self._reduce_as_loop(args, ctx)
                if r is not None:
                    return r
            if q in ("functools.reduce", "itertools.accumulate") and args and not isinstance(args[0], tuple):
                # an iteration combinator the engine does not unfold: a `raise` inside its callback is recorded as
                # such (when it fires cannot be related to a guard of the enclosing function)
                n0 = len(self.guards)
                a0 = self.as_term(args[0])
                for gi in range(n0, len(self.guards)):
                    g = self.guards[gi]
                    if g[0] in ("raise-if", "raise-in-loop"):
                        self.guards[gi] = ("raise-in-callback",) + tuple(g[1:])
                args = [a0] + list(args[1:])
            if q == "functools.partial" and args:
                return Partial(args[0], args[1:], kwargs)
            if q == "operator.attrgetter" and len(args) == 1 and not kwargs:
                a0 = self.as_term(args[0])
                if is_const(a0) and isinstance(a0[1], str) and "." not in a0[1]:
                    d_ = self.depth
                    return ("lam", 1, ("attr", ("bv", d_, 0), a0[1]), d_)
            if q in ("equinox.filter_jit", "jax.jit") and len(args) == 1 and not isinstance(args[0], tuple):
                # compiling a callable does not change what it computes (what it CAPTURES at trace time is the
                # business of C14's closure rule)
                return args[0]
            if q == "jax.lax.scan":
                r = self.model_scan(args, kwargs)
                if r is not None:
                    return r
            if q == "jax.lax.while_loop" and len(args) + len(kwargs) == 3:
                # a loop state that is a repository NamedTuple: the loop functions see a record whose fields are the
                # components of a tuple state (so methods of the record can be evaluated), and the result is that
                # record over the projections of the tuple-state loop
                b_ = dict(zip(("cond_fun", "body_fun", "init_val"), args))
                b_.update(kwargs)
                init_ = self.as_term(b_["init_val"]) if "init_val" in b_ else None
                if init_ is not None and init_[0] == "call" and init_[1][0] == "ext" and init_[1][1] in NT_CLASSES:
                    fields_ = NT_CLASSES[init_[1][1]]
                    vals_ = [nt_field(init_, f_) for f_ in fields_]
                    if all(v is not None for v in vals_):
                        d_ = self.depth
                        st_ = ("bv", d_, 0)
                        rec_ = ("call", init_[1], (), tuple(sorted((f_, ("sub", st_, C(i_))) for i_, f_ in enumerate(fields_))))
                        self.depth += 1
                        try:
                            c_t = self.as_term(self.call(b_["cond_fun"], [rec_], {}, ctx))
                            b_t = self.as_term(self.call(b_["body_fun"], [rec_], {}, ctx))
                        finally:
                            self.depth -= 1
                        nv_ = [nt_field(b_t, f_) for f_ in fields_]
                        if all(v is not None for v in nv_):
                            if not hasattr(self, "record_whiles"):
                                self.record_whiles = []
                            self.record_whiles.append((init_[1][1], tuple(fields_)))   # which record the tuple state stands for
                            w_ = self.call(("ext", "jax.lax.while_loop"),
                                           [("lam", 1, c_t, d_), ("lam", 1, ("tuple", tuple(nv_)), d_), ("tuple", tuple(vals_))], {}, ctx)
                            w_ = self.as_term(w_)
                            return ("call", init_[1], (), tuple(sorted((f_, proj(w_, i_)) for i_, f_ in enumerate(fields_))))
            r = self.prog.lookup(q) if q.startswith("flowjax") else None
            if r and r[0] == "func" and self.inline_repo and q not in self.no_inline and self.stack.count(q) == 0:
                mctx = (r[1], None, None)
                decs = []
                for dec in r[2].decorator_list:
                    dsrc = ast.unparse(dec).replace(" ", "")
                    # compilation / metadata decorators do not change what the function computes
                    if dsrc in ("eqx.filter_jit", "jax.jit", "jit", "staticmethod", "functools.cache", "cache") or \
                            dsrc.startswith(("partial(jit", "functools.partial(jit", "partial(jax.jit", "wraps(",
                                             "functools.wraps(", "functools.partial(jax.jit", "lru_cache", "functools.lru_cache")):
                        continue
                    decs.append(dec)
                self.stack.append(q)
                try:
                    if not decs:
                        res_ = self.apply_def(r[2], Env(), mctx, args, kwargs)
                        if isinstance(res_, tuple):
                            f_ = self._suffix_recursion_as_fold(q, args, kwargs, res_)
                            if f_ is not None:
                                return f_
                        return res_
                    # a transforming decorator (eqx.filter_vmap, ...): apply it to the function value, as for a
                    # nested def, then call the result
                    val = Closure(r[2], Env(), mctx, r[2].name)
                    undecorated = ast.FunctionDef(name=r[2].name, args=r[2].args, body=r[2].body, decorator_list=[],
                                                  returns=r[2].returns, type_comment=None, lineno=r[2].lineno,
                                                  col_offset=r[2].col_offset)
                    val = Closure(undecorated, Env(), mctx, r[2].name)
                    for dec in reversed(decs):
                        d = self.eval(dec, Env(), mctx)
                        val = self.call(d, [val], {}, mctx)
                    return self.call(val, args, kwargs, ctx, node)
                finally:
                    self.stack.pop()
            lit = self._literal_builtin(q, args, kwargs)
            if lit is not None:
                return lit
            if q == "builtins.getattr" and len(args) == 2 and not kwargs:
                a1 = self.as_term(args[1])
                if is_const(a1) and isinstance(a1[1], str):
                    # getattr(x, "name") is x.name
                    o = args[0] if isinstance(args[0], tuple) else self.as_term(args[0])
                    return self.attr(o, a1[1], ctx)
            inst = self._private_callable_instance(q, args, kwargs)
            if inst is not None:
                return inst
            if q == "builtins.map" and len(args) == 2 and not kwargs:
                # map(f, (a, b)) over a literal sequence with any callable f (an external function, a module-level
                # functools.partial): the elementwise calls
                it_t = self.as_term(args[1])
                if self._is_lit(it_t):
                    try:
                        return ("list", tuple(self.as_term(self.call(args[0], [x], {}, ctx)) for x in it_t[1]))
                    except AnalysisError:
                        pass
            if q == "builtins.map" and len(args) == 2 and not kwargs and isinstance(args[0], (Closure, BoundMethod, Partial)):
                # map(f, xs) is the comprehension (f(x) for x in xs)
                fn_t = self.reify(args[0])
                it_t = self.as_term(args[1])
                if not (fn_t[0] == "lam" and fn_t[1] == 1) and isinstance(args[0], Partial):
                    # a partial of a function that is kept as a call (not inlined): the lambda that makes that call
                    d_ = self.depth
                    self.depth += 1
                    try:
                        body_ = self.as_term(self.call(args[0], [("bv", d_, 0)], {}, ctx))
                        fn_t = ("lam", 1, body_, d_)
                    except AnalysisError:
                        pass
                    finally:
                        self.depth -= 1
                if fn_t[0] == "lam" and fn_t[1] == 1:
                    if self._is_lit(it_t):
                        return ("list", tuple(self.beta(fn_t, [x]) for x in it_t[1]))
                    return ("map", fn_t, it_t)
            if q in ("builtins.tuple", "builtins.list") and len(args) == 1 and not kwargs:
                a0 = self.as_term(args[0])
                if q == "builtins.tuple" and (
                        (a0[0] == "attr" and a0[2] in ("shape", "cond_shape")) or
                        (a0[0] == "sub" and a0[2][0] == "slice" and a0[1][0] == "attr" and a0[1][2] in ("shape", "cond_shape"))):
                    return a0     # a shape (and a slice of one) is a tuple already
                if a0[0] in ("map", "filter", "excl_scan"):
                    return a0     # materialising a lazily produced sequence does not change its elements
                if a0[0] in ("tuple", "list"):
                    return ("tuple" if q.endswith("tuple") else "list", a0[1])
                if a0[0] == "call" and a0[1] == ("ext", "builtins.reversed"):
                    return a0  # list(reversed(x)) / tuple(reversed(x)): the reversed sequence
            if q in ("builtins.enumerate", "itertools.pairwise") and args and not (set(kwargs) - {"start"}):
                # over a counted domain, both are maps over the count: enumerate(f(i) for i in range(n)) is
                # ((i, f(i)) for i in range(n)); pairwise(f(i) for i in range(m)) is ((f(i), f(i+1)) for i in range(m-1))
                x_ = self.as_term(args[0])
                f_ = None
                if x_[0] == "map" and x_[1][0] == "lam" and x_[1][1] == 1:
                    f_, x_ = x_[1], x_[2]
                if x_[0] == "call" and x_[1] == ("ext", "builtins.range") and len(x_[2]) == 1 and not x_[3]:
                    d_ = self.depth
                    i_ = ("bv", d_, 0)
                    self.depth += 1
                    try:
                        at = (lambda t_: self.beta(f_, [t_])) if f_ is not None else (lambda t_: t_)
                        if q == "builtins.enumerate":
                            st_ = self.as_term(args[1]) if len(args) > 1 else self.as_term(kwargs["start"]) if "start" in kwargs else C(0)
                            body_ = ("tuple", (mk_add((i_, st_)), at(i_)))
                            dom_ = x_
                        else:
                            body_ = ("tuple", (at(i_), at(mk_add((i_, C(1))))))
                            dom_ = ("call", ("ext", "builtins.range"), (mk_add((x_[2][0], C(-1))),), ())
                    finally:
                        self.depth -= 1
                    return ("map", ("lam", 1, body_, d_), dom_)
            if q == "equinox.combine" and len(args) == 2 and not kwargs:
                # combine(tree_map(f, partition(T, p)[0]), partition(T, p)[1])  ==  tree_map(l -> f(l) if p(l) else l, T):
                # the selected leaves are mapped, the others are put back unchanged
                a0_, a1_ = self.as_term(args[0]), self.as_term(args[1])
                if a0_[0] == "call" and a0_[1] == ("ext", "jax.tree_util.tree_map") and a1_[0] == "sub" and a1_[2] == C(1):
                    kw_ = dict(a0_[3])
                    f_, t_ = kw_.get("f"), kw_.get("tree")
                    part_ = a1_[1]
                    if f_ is not None and t_ is not None and t_ == ("sub", part_, C(0)) and part_[0] == "call" and \
                            part_[1] == ("ext", "equinox.partition") and f_[0] == "lam" and f_[1] == 1 and set(kw_) <= {"f", "tree"}:
                        pk_ = dict(part_[3])
                        tree_ = pk_.get("pytree") if "pytree" in pk_ else (part_[2][0] if part_[2] else None)
                        pred_ = pk_.get("filter_spec") if "filter_spec" in pk_ else (part_[2][1] if len(part_[2]) > 1 else None)
                        if tree_ is not None and pred_ is not None and pred_[0] == "lam" and pred_[1] == 1 and "is_leaf" not in pk_:
                            d_ = self.depth
                            l_ = ("bv", d_, 0)
                            self.depth += 1
                            try:
                                body_ = mk_ite(self.beta(pred_, [l_]), self.beta(f_, [l_]), l_)
                            finally:
                                self.depth -= 1
                            return self.call(("ext", "jax.tree_util.tree_map"), [("lam", 1, body_, d_), tree_], {}, ctx)
            if q == "jax.tree_util.tree_unflatten" and len(args) + len(kwargs) == 2:
                # tree_unflatten(treedef, [f(l) for l in leaves]) with (leaves, treedef) = tree_flatten(tree, is_leaf=p)
                # is tree_map(f, tree, is_leaf=p) - the definition of tree_map
                b_ = dict(zip(("treedef", "leaves"), [self.as_term(x) for x in args]))
                b_.update({k: self.as_term(v) for k, v in kwargs.items()})
                td_, lv_ = b_.get("treedef"), b_.get("leaves")
                if lv_ is not None and lv_[0] == "call" and lv_[1] in (("ext", "builtins.list"), ("ext", "builtins.tuple")) and len(lv_[2]) == 1:
                    lv_ = lv_[2][0]
                if td_ is not None and lv_ is not None and td_[0] == "sub" and td_[2] == C(1) and lv_[0] == "map" and \
                        lv_[2][0] == "sub" and lv_[2][2] == C(0) and lv_[2][1] == td_[1]:
                    fl_ = td_[1]
                    if fl_[0] == "call" and fl_[1] == ("ext", "jax.tree_util.tree_flatten"):
                        fa_ = dict(fl_[3])
                        tree_ = fa_.get("tree") if "tree" in fa_ else (fl_[2][0] if fl_[2] else None)
                        if tree_ is not None:
                            kw2 = {"is_leaf": fa_["is_leaf"]} if "is_leaf" in fa_ else {}
                            return self.call(("ext", "jax.tree_util.tree_map"), [lv_[1], tree_], kw2, ctx)
            if q == "builtins.slice" and 1 <= len(args) <= 3 and not kwargs:
                a_ = [self.as_term(x) for x in args]
                if len(a_) == 1:
                    return ("slice", NONE, a_[0], NONE)
                return ("slice", a_[0], a_[1], a_[2] if len(a_) == 3 else NONE)
            if q == "builtins.isinstance" and len(args) == 2:
                a0 = self.as_term(args[0])
                if a0[0] in ("tuple",) and self.as_term(args[1]) == ("ext", "builtins.tuple"):
                    return TRUE
        elif f[0] == "attr":
            obj, name = f[1], f[2]
            # a method of a constant string with constant arguments ('transform'.endswith('_and_log_det')) is a constant
            if is_const(obj) and isinstance(obj[1], str) and name in ("endswith", "startswith", "removesuffix", "removeprefix",
                                                                       "replace", "split", "partition", "rpartition", "upper",
                                                                       "lower", "strip", "count", "find", "format") and not kwargs:
                cargs = [self.as_term(a) for a in args]
                if all(is_const(a) and isinstance(a[1], (str, int)) for a in cargs):
                    try:
                        v = getattr(obj[1], name)(*[a[1] for a in cargs])
                    except Exception:  # noqa: BLE001
                        v = None
                    if isinstance(v, (str, bool, int)):
                        return C(v)
                    if isinstance(v, (tuple, list)) and all(isinstance(x, str) for x in v):
                        return ("tuple" if isinstance(v, tuple) else "list", tuple(C(x) for x in v))
            # self.method(...) -> inline; also unwrap(self).<helper the unchanged tree did not have>(...), the form a
            # public method uses after `self = unwrap(self)`
            on_unwrapped_self = ctx[1] is not None and obj == ("call", ("ext", "flowjax.wrappers.unwrap"), (), (("tree", ctx[2]),)) \
                and name.startswith("_") and self.prog.recorded_signatures
            if on_unwrapped_self and self.inline_repo:
                r = self.prog.find_method(ctx[1], name)
                qn = f"{ctx[1].qualname}.{name}"
                if r and f"{r[0].qualname}.{name}" not in self.prog.recorded_signatures and name not in ctx[1].properties \
                        and qn not in self.no_inline and self.stack.count(qn) == 0 and name not in r[0].abstract:
                    self.stack.append(qn)
                    try:
                        return self.apply_method(r[1], (r[0].module, ctx[1], obj), [obj] + list(args), kwargs)
                    finally:
                        self.stack.pop()
            if ctx[1] is not None and obj == ctx[2] and self.inline_repo:
                r = self.prog.find_method(ctx[1], name)
                qn = f"{ctx[1].qualname}.{name}"
                if r and name not in ctx[1].properties and qn not in self.no_inline and self.stack.count(qn) == 0:
                    owner, fn = r
                    if name not in owner.abstract:
                        self.stack.append(qn)
                        try:
                            return self.apply_method(fn, (owner.module, ctx[1], ctx[2]),
                                                     [obj] + list(args), kwargs)
                        finally:
                            self.stack.pop()
            # x.at[idx].set(v)
            if obj[0] == "sub" and obj[1][0] == "attr" and obj[1][2] == "at" and len(args) == 1:
                return ("at", obj[1][1], obj[2], name, self.as_term(args[0]))
            if name in ARRAY_METHODS and obj[0] != "ext":
                return norm_call(("ext", ARRAY_METHODS[name]), [obj] + [self.as_term(a) for a in args],
                                 {k: self.as_term(v) for k, v in kwargs.items()}, self.prog)
            if name == "reshape" and obj[0] != "ext":
                a = [self.as_term(x) for x in args]
                shape = a[0] if len(a) == 1 else ("tuple", tuple(a))
                return norm_call(("ext", "jax.numpy.reshape"), [obj, shape], {}, self.prog)
            if name == "items" and obj[0] == "dict" and not args:
                return ("tuple", tuple(("tuple", (k, v)) for k, v in obj[1]))
            if name == "values" and obj[0] == "dict" and not args:
                return ("tuple", tuple(v for k, v in obj[1]))
        if isinstance(f, tuple) and f[0] == "call" and f[1][0] == "ext" and f[1][1].startswith("flowjax") and self.inline_repo:
            # calling an instance of a package class that defines __call__ (a callable object in place of a closure)
            r = self.prog.lookup(f[1][1])
            rc = self.prog.find_method(r[1], "__call__") if r and r[0] == "class" else None
            qn = f"{f[1][1]}.__call__"
            if rc is not None and qn not in self.no_inline and self.stack.count(qn) == 0 and \
                    not any(k.qualname in ("flowjax.bijections.bijection.AbstractBijection",
                                           "flowjax.distributions.AbstractDistribution") for k in self.prog.mro(r[1])):
                fields = self.eval_init(r[1], list(f[2]), dict(f[3]))
                inst = ("sym", "inst$" + key(f)[:10])
                saved = self.self_fields
                self.self_fields = dict(fields)
                self.stack.append(qn)
                try:
                    return self.apply_method(rc[1], (rc[0].module, r[1], inst), [inst] + list(args), kwargs)
                finally:
                    self.stack.pop()
                    self.self_fields = saved
        if isinstance(f, tuple) and f[0] == "ite":
            # (g if c else h)(args) == g(args) if c else h(args)
            return mk_ite(f[1], self.as_term(self.call(f[2], args, kwargs, ctx, node)),
                          self.as_term(self.call(f[3], args, kwargs, ctx, node)))
        targs = [self.as_term(a) for a in args]
        tkw = {k: self.as_term(v) for k, v in kwargs.items()}
        if isinstance(f, tuple) and f == ("ext", "flowjax.wrappers.Lambda") and (args or "fn" in kwargs) and not opaque_args:
            # value of the node: fn applied to its pytree children, each non-static child standing as an opaque RAW
            # leaf named by the digest of its initial value (what the optimiser / a conditioner varies)
            from .rules.leaves import kind as _kind
            inits = {}

            def raw(v):
                tv = self.as_term(v)
                if _kind(tv) in ("static", "callable") or _simple_value(tv):
                    return tv
                nm = "RAW$" + key(tv)[:10]
                inits[nm] = tv
                return ("sym", nm)
            fn0 = args[0] if args else kwargs["fn"]
            try:
                body = self.as_term(self.call(fn0, [raw(a) for a in args[1:]],
                                              {k: raw(v) for k, v in kwargs.items() if k != "fn"}, ctx))
            except AnalysisError:
                body = None
            if body is not None and not has_unknown(body):
                t_lam = norm_call(f, targs, tkw, self.prog)
                LAMBDA_VALUES[(id(self.prog), key(t_lam))] = (body, tuple(sorted(inits.items())))
                return t_lam
        if isinstance(f, tuple) and f[0] == "ext" and f[1].startswith("operator.") and len(targs) == 2 and not tkw:
            opn = f[1].split(".", 1)[1]
            cm = {"ge": ">=", "gt": ">", "le": "<=", "lt": "<", "eq": "==", "ne": "!="}
            if opn in cm:
                return mk_cmp(cm[opn], targs[0], targs[1])
            if opn == "add":
                return mk_add(tuple(targs))
            if opn == "mul":
                return mk_mul(tuple(targs))
            if opn == "sub":
                return mk_add((targs[0], mk_neg(targs[1])))
        return norm_call(f, targs, tkw, self.prog)

    @staticmethod
    def _is_lit(t):
        return isinstance(t, tuple) and t and t[0] in ("tuple", "list") and not any(x[0] == "star" for x in t[1])

    def _private_callable_instance(self, q, args, kwargs):
        """A private plain class of the package with __call__ (a closure written as a class: _ScanStep(method, cond),
        _RavelledConstructor(init, unravel, static)) is, as a value, the function its __call__ computes with the
        constructor arguments bound: reified like a closure."""
        if not q.startswith("flowjax") or not self.inline_repo:
            return None
        r = self.prog.lookup(q)
        if not r or r[0] != "class" or not r[1].name.startswith("_"):
            return None
        cls = r[1]
        rc = self.prog.find_method(cls, "__call__")
        qn = f"{q}.__call__"
        if rc is None or qn in self.no_inline or self.stack.count(qn) or any(
                b not in self.prog.classes for k in self.prog.mro(cls) for b in k.bases):
            return None  # only classes whose whole ancestry is in the package (not eqx.Module, NamedTuple ...)
        if any(isinstance(a, tuple) and a and a[0] == "star" for a in args) or any(k.startswith("**") for k in kwargs):
            return None
        fields = self.eval_init(cls, list(args), dict(kwargs))
        fn = rc[1]
        a = fn.args
        pos = a.posonlyargs + a.args
        if not pos:
            return None
        # the closure it stands for: __call__ without its first parameter, `self` bound to a record of the fields
        import copy
        a2 = copy.copy(a)
        if a.posonlyargs:
            a2.posonlyargs = a.posonlyargs[1:]
        else:
            a2.args = a.args[1:]
        fn2 = ast.FunctionDef(name=cls.name, args=a2, body=fn.body, decorator_list=[], returns=None, type_comment=None,
                              lineno=fn.lineno, col_offset=fn.col_offset)
        env = Env()
        env.set(pos[0].arg, ("record", tuple(sorted((k, self.as_term(v)) for k, v in fields.items()))))
        return Closure(fn2, env, (rc[0].module, None, None), cls.name)

    def _literal_builtin(self, q, args, kwargs):
        """enumerate / zip / range / reversed / len on literal sequences (constant propagation)."""
        a = [self.as_term(x) for x in args]
        if q == "builtins.enumerate" and len(a) in (1, 2) and self._is_lit(a[0]):
            start = a[1] if len(a) == 2 else self.as_term(kwargs["start"]) if "start" in kwargs else C(0)
            if not (is_const(start) and isinstance(start[1], int)) or set(kwargs) - {"start"}:
                return None
            return ("tuple", tuple(("tuple", (C(i), x)) for i, x in enumerate(a[0][1], start[1])))
        if q == "builtins.range" and a and all(is_const(x) and isinstance(x[1], int) for x in a) and not kwargs:
            r = range(*[x[1] for x in a])
            if len(r) <= 64:
                return ("tuple", tuple(C(i) for i in r))
        if q == "itertools.pairwise" and len(a) == 1 and self._is_lit(a[0]) and not kwargs:
            xs_ = a[0][1]
            return ("tuple", tuple(("tuple", (xs_[i], xs_[i + 1])) for i in range(len(xs_) - 1)))
        if q == "builtins.reversed" and len(a) == 1 and self._is_lit(a[0]):
            return ("tuple", tuple(reversed(a[0][1])))
        if q == "builtins.zip" and a and any(self._is_lit(x) for x in a):
            lits = [len(x[1]) for x in a if self._is_lit(x)]
            strict = self.as_term(kwargs.get("strict", FALSE))
            if strict == TRUE and len(set(lits)) > 1:
                return ("raises", ("call", ("ext", "builtins.ValueError"), (C("zip() arguments have different lengths"),), ()))
            n = min(lits)
            rows = []
            for i in range(n):
                rows.append(("tuple", tuple(x[1][i] if self._is_lit(x) else proj(x, i) for x in a)))
            return ("tuple", tuple(rows))
        if q == "builtins.len" and len(a) == 1 and self._is_lit(a[0]):
            return C(len(a[0][1]))
        return None

    def model_scan(self, args, kwargs):
        """jax.lax.scan(f, init, xs, length=None, reverse=False) -> (carry_fold, ys)."""
        names = ["f", "init", "xs", "length", "reverse"]
        b = dict(zip(names, args))
        b.update(kwargs)
        f = b.get("f")
        if f is None or "init" not in b:
            return None
        init = self.as_term(b["init"])
        xs = self.as_term(b.get("xs", NONE))
        length = self.as_term(b.get("length", NONE))
        reverse = self.as_term(b.get("reverse", FALSE))
        it = ("scanxs", xs, length, reverse)
        d = self.depth
        elem = ("bv", d, 0)

        def nt_parts(t):
            """(class name, [(field, value)...] in declaration order) for a complete NamedTuple constructor call"""
            if t[0] == "call" and t[1][0] == "ext" and t[1][1] in NT_CLASSES:
                fields = NT_CLASSES[t[1][1]]
                vals = [nt_field(t, f_) for f_ in fields]
                if all(v is not None for v in vals):
                    return t[1][1], list(zip(fields, vals))
            return None

        def mkcarry(t, counter):
            if t[0] == "tuple":
                return ("tuple", tuple(mkcarry(x, counter) for x in t[1]))
            r_ = nt_parts(t)
            if r_ is not None:
                # a record-typed carry: the loop function sees a record whose fields are the carried variables
                return ("call", ("ext", r_[0]), (), tuple(sorted([(f_, mkcarry(v, counter)) for f_, v in r_[1]])))
            counter[0] += 1
            return ("bv", d, counter[0])

        counter = [0]
        carry = mkcarry(init, counter)
        self.depth += 1
        try:
            res = self.call(f, [carry, elem], {}, (None, None, None))
        finally:
            self.depth -= 1
        res = self.as_term(res)
        new_carry = proj(res, 0)
        ys = proj(res, 1)
        leaves_init, leaves_new, ok = [], [], [True]

        def flat(ti, tn):
            r_ = nt_parts(ti)
            if r_ is not None:
                for f_, a in r_[1]:
                    v_ = nt_field(tn, f_)
                    flat(a, v_ if v_ is not None else ("attr", tn, f_))
                return
            if ti[0] == "tuple":
                if tn[0] == "tuple" and len(tn[1]) == len(ti[1]):
                    for a, b2 in zip(ti[1], tn[1]):
                        flat(a, b2)
                else:
                    for j, a in enumerate(ti[1]):
                        flat(a, proj(tn, j))
            else:
                leaves_init.append(ti)
                leaves_new.append(tn)
        flat(init, new_carry)
        n = len(leaves_init)
        deps = []
        for v in leaves_new:
            deps.append([i2 - 1 for i2 in free_bvs(v, d) if i2 >= 1])
        folds = []
        for i in range(n):
            order = [i]
            j = 0
            while j < len(order):
                for dd in deps[order[j]]:
                    if dd not in order:
                        order.append(dd)
                j += 1
            ren = {1 + old: 1 + new for new, old in enumerate(order)}

            def rn(t, ren=ren):
                if t[0] == "bv" and t[1] == d and t[2] in ren:
                    return ("bv", d, ren[t[2]])
                return None
            bodies = tuple(subst_free(leaves_new[j], d, rn) for j in order)
            lam = ("lam", 1 + len(order), ("tuple", bodies), d)
            folds.append(("fold", it, lam, ("tuple", tuple(leaves_init[j] for j in order))))
        pos = [0]

        def rebuild(ti):
            r_ = nt_parts(ti)
            if r_ is not None:
                return ("call", ("ext", r_[0]), (), tuple(sorted([(f_, rebuild(v)) for f_, v in r_[1]])))
            if ti[0] == "tuple":
                return ("tuple", tuple(rebuild(x) for x in ti[1]))
            pos[0] += 1
            return folds[pos[0] - 1]
        final = rebuild(init)
        return ("tuple", (final, ("scan_ys", it, ("lam", 1 + n, ys, d), init)))


CMP = {ast.Eq: "==", ast.NotEq: "!=", ast.Lt: "<", ast.LtE: "<=", ast.Gt: ">", ast.GtE: ">=",
       ast.Is: "is", ast.IsNot: "is not", ast.In: "in", ast.NotIn: "not in"}


def assigned_names(stmts) -> list[str]:
    out: list[str] = []

    def add(n):
        if n not in out:
            out.append(n)

    def tgt(t):
        if isinstance(t, ast.Name):
            add(t.id)
        elif isinstance(t, (ast.Tuple, ast.List)):
            for e in t.elts:
                tgt(e)
        elif isinstance(t, ast.Starred):
            tgt(t.value)
        elif isinstance(t, ast.Subscript) and isinstance(t.value, ast.Name):
            add(t.value.id)

    def visit(ss):
        for s in ss:
            if isinstance(s, ast.Assign):
                for t in s.targets:
                    tgt(t)
            elif isinstance(s, (ast.AugAssign, ast.AnnAssign)):
                tgt(s.target)
            elif isinstance(s, ast.For):
                tgt(s.target)
                visit(s.body)
                visit(s.orelse)
            elif isinstance(s, (ast.If, ast.While)):
                visit(s.body)
                visit(s.orelse)
            elif isinstance(s, ast.With):
                for item in s.items:
                    if item.optional_vars is not None:
                        tgt(item.optional_vars)
                visit(s.body)
            elif isinstance(s, ast.Match):
                for case in s.cases:
                    for n in ast.walk(case.pattern):
                        if isinstance(n, (ast.MatchAs, ast.MatchStar)) and n.name:
                            add(n.name)
                    visit(case.body)
            elif isinstance(s, ast.Try):
                visit(s.body)
                for h in s.handlers:
                    visit(h.body)
                visit(s.orelse)
                visit(s.finalbody)
            elif isinstance(s, ast.Expr) and isinstance(s.value, ast.Call) and isinstance(
                    s.value.func, ast.Attribute) and s.value.func.attr in ("append", "extend", "insert", "reverse") and isinstance(
                    s.value.func.value, ast.Name):
                add(s.value.func.value.id)
            elif isinstance(s, ast.Expr) and isinstance(s.value, ast.Call) and isinstance(
                    s.value.func, ast.Attribute) and s.value.func.attr in ("append", "extend") and isinstance(
                    s.value.func.value, ast.Subscript) and isinstance(s.value.func.value.value, ast.Name):
                add(s.value.func.value.value.id)
            elif isinstance(s, ast.FunctionDef):
                add(s.name)
    visit(stmts)
    return out


# ---------------------------------------------------------------------- printing


_SHOW_BUDGET = [0]


def show(t, maxlen=400) -> str:
    _SHOW_BUDGET[0] = maxlen * 3
    s = _show(t)
    if len(s) > maxlen:
        s = s[: maxlen - 3] + "..."
    return s


def _show(t) -> str:
    _SHOW_BUDGET[0] -= 1
    if _SHOW_BUDGET[0] <= 0:
        return "~"
    if not isinstance(t, tuple):
        return repr(t)
    if not t or not isinstance(t[0], str):
        return "<" + ", ".join(_show(x) for x in t) + ">"
    tag = t[0]
    if tag == "sym":
        return t[1]
    if tag == "bv":
        return f"v{t[1]}_{t[2]}"
    if tag == "const":
        return repr(t[1])
    if tag == "ext":
        q = t[1]
        for a, b in (("jax.numpy.", "jnp."), ("jax.random.", "jr."), ("builtins.", ""), ("equinox.", "eqx."),
                     ("flowjax.", "fj.")):
            if q.startswith(a):
                return b + q[len(a):]
        return q
    if tag == "attr":
        return f"{_show(t[1])}.{t[2]}"
    if tag == "call":
        a = [_show(x) for x in t[2]] + [f"{k}={_show(v)}" for k, v in t[3]]
        return f"{_show(t[1])}({', '.join(a)})"
    if tag in ("tuple", "list"):
        o, c = ("(", ")") if tag == "tuple" else ("[", "]")
        return o + ", ".join(_show(x) for x in t[1]) + ("," if tag == "tuple" and len(t[1]) == 1 else "") + c
    if tag == "sub":
        return f"{_show(t[1])}[{_show(t[2])}]"
    if tag == "slice":
        return ":".join("" if x == NONE else _show(x) for x in t[1:])
    if tag == "add":
        return "(" + " + ".join(_show(x) for x in t[1]) + ")"
    if tag == "mul":
        return "(" + " * ".join(_show(x) for x in t[1]) + ")"
    if tag == "pow":
        return f"{_show(t[1])}**{_show(t[2])}"
    if tag == "matmul":
        return f"({_show(t[1])} @ {_show(t[2])})"
    if tag == "cmp":
        return f"({_show(t[2])} {t[1]} {_show(t[3])})"
    if tag == "ite":
        return f"({_show(t[2])} if {_show(t[1])} else {_show(t[3])})"
    if tag == "lam":
        return f"(\\{t[1]}. {_show(t[2])})"
    if tag == "fold":
        return f"fold({_show(t[1])}, {_show(t[2])}, init={_show(t[3])})"
    if tag == "map":
        return f"map({_show(t[1])}, {_show(t[2])})"
    if tag == "at":
        return f"{_show(t[1])}.at[{_show(t[2])}].{t[3]}({_show(t[4])})"
    if tag == "star":
        return "*" + _show(t[1])
    if tag == "unknown":
        return f"<?{t[1]}>"
    return tag + "(" + ", ".join(_show(x) for x in t[1:]) + ")"
