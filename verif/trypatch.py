#!/venv/bin/python
"""Run checks against a scratch copy of /repo/flowjax with a patch applied (never touches /repo).
usage: trypatch.py <patch.diff> [Cnn ...]   (default: every implemented check)"""
import glob
import os
import shutil
import subprocess
import sys
import tempfile

HERE = os.path.dirname(os.path.abspath(__file__))
REPO = os.environ.get("FLOWJAX_REPO", "/repo")


def main():
    patch = os.path.abspath(sys.argv[1])
    props = [a.upper() for a in sys.argv[2:]] or sorted(
        os.path.basename(p)[:-3].upper() for p in glob.glob(os.path.join(HERE, "rules", "c[0-9][0-9].py")))
    tmp = tempfile.mkdtemp(prefix="fjpatch_")
    try:
        shutil.copytree(os.path.join(REPO, "flowjax"), os.path.join(tmp, "flowjax"),
                        ignore=shutil.ignore_patterns("__pycache__"))
        r = subprocess.run(["patch", "-p1", "-s", "-d", tmp, "-i", patch], capture_output=True, text=True)
        if r.returncode != 0:
            print("PATCH FAILED", r.stdout, r.stderr)
            return 3
        env = dict(os.environ, FLOWJAX_REPO=tmp, VERIF_EVIDENCE_DIR=os.path.join(tmp, "ev"))
        fired = []
        for pid in props:
            r = subprocess.run([sys.executable, os.path.join(HERE, "check.py"), pid], env=env,
                               capture_output=True, text=True)
            lines = [l for l in (r.stdout + r.stderr).splitlines()
                     if "VIOLATED" in l or "ANALYSIS-ERROR" in l or "Traceback" in l or "Error" in l]
            status = {0: "silent", 1: "FIRE", 2: "UNDECIDED"}.get(r.returncode, str(r.returncode))
            print(f"{pid}: {status}")
            for l in lines[:6]:
                print("     ", l[:400])
            if r.returncode == 1:
                fired.append(pid)
        print("fired:", fired)
    finally:
        shutil.rmtree(tmp, ignore_errors=True)


if __name__ == "__main__":
    sys.exit(main())
